(* Proofs about the heap-level model of UbxParser (model/HeapParser.v): with allocation in _reset() no buffer
   that is queued or was handed out is ever written again; the heap model refines the value model; reusing the
   buffer breaks the property. Used by props/C11b.v. *)
From Ubx Require Import Base Checksum ParserUbx HeapParser.
From Coq Require Import Lia.
Open Scope N_scope.

(* states in which the parser may still write to the current buffer before the next allocation *)
Definition writing (s : pstate) : Prop :=
  match s with CLASS | ID | LEN1 | LEN2 | DATA => True | _ => False end.

Definition hinv (p : hparser) : Prop :=
  (h_cur p < length (h_heap p))%nat
  /\ (forall b, In b (exposed p) -> (b < length (h_heap p))%nat)
  /\ (writing (h_st p) -> ~ In (h_cur p) (exposed p)).

(* b is a valid buffer the parser will not write to (unless re-allocated, which cannot happen) *)
Definition frozen (p : hparser) (b : nat) : Prop :=
  (b < length (h_heap p))%nat /\ (writing (h_st p) -> b <> h_cur p).

Definition qbufs (q : list hpkt) : list nat :=
  flat_map (fun x => match x with HPkt _ _ b => [b] | HCrcErr => [] end) q.

Lemma exposed_eq : forall p, exposed p = qbufs (h_queue p) ++ h_out p.
Proof. reflexivity. Qed.

(* ---- heap lemmas ---- *)
Lemma hset_length : forall h i v, length (hset h i v) = length h.
Proof. induction h as [|x h IH]; intros [|i] v; simpl; auto. Qed.

Lemma hget_hset_same : forall h i v, (i < length h)%nat -> hget (hset h i v) i = v.
Proof.
  unfold hget. induction h as [|x h IH]; intros [|i] v H; simpl in *; try lia; auto.
  apply IH. lia.
Qed.

Lemma hget_hset_other : forall h i j v, j <> i -> hget (hset h i v) j = hget h j.
Proof.
  unfold hget. induction h as [|x h IH]; intros [|i] [|j] v H; simpl; auto; try congruence.
Qed.

Lemma hget_app_l : forall h x j, (j < length h)%nat -> hget (h ++ x) j = hget h j.
Proof. intros. unfold hget. apply app_nth1. assumption. Qed.

Lemma hget_app_new : forall h (x : bytes), hget (h ++ [x]) (length h) = x.
Proof. intros. unfold hget. rewrite app_nth2 by lia. rewrite Nat.sub_diag. reflexivity. Qed.

Lemma map_deref_ext : forall h h' q,
  (forall b, In b (qbufs q) -> hget h' b = hget h b) -> map (deref h') q = map (deref h) q.
Proof.
  induction q as [|x q IH]; intros H; simpl; auto.
  f_equal.
  - destruct x as [c i b|]; simpl; auto. f_equal. apply H. simpl. auto.
  - apply IH. intros b Hb. apply H. unfold qbufs in *. simpl. apply in_or_app. auto.
Qed.

Lemma qbufs_app : forall q q', qbufs (q ++ q') = qbufs q ++ qbufs q'.
Proof. intros. unfold qbufs. apply flat_map_app. Qed.

Ltac prj := cbn [h_st h_cls h_id h_len h_cka h_ckb h_ofs h_ck h_cur h_heap h_queue h_out h_rx h_filt
                 st rg queue rx filt mcls mid mlen mdata mcka mckb ofs cks] in *.
Ltac brk := repeat match goal with |- context [if ?c then _ else _] => destruct c end; prj.

(* ---- the invariant ---- *)
Lemma hinv_fresh : forall f, hinv (hfresh f).
Proof.
  intros f. unfold hinv, hfresh, exposed. prj. simpl. split; [lia | split].
  - intros b [].
  - intros [].
Qed.

Lemma hinv_step : forall p d, hinv p -> hinv (hstep false p d).
Proof.
  intros [s c i l a b o k cur heap q out rx f] d.
  unfold hinv. rewrite !exposed_eq. unfold hstep. prj. intros (H1 & H2 & H3).
  destruct s; brk; rewrite ?exposed_eq; prj; cbn [writing] in *;
    try (split; [assumption | split; [assumption | tauto]]).
  - (* SYNC -> CLASS: allocation *)
    rewrite app_length. cbn [length].
    split; [lia | split].
    + intros b0 Hb. apply H2 in Hb. lia.
    + intros _ Hb. apply H2 in Hb. lia.
  - (* DATA -> CRC1 *)
    rewrite hset_length. split; [assumption | split; [assumption | tauto]].
  - (* DATA -> DATA *)
    rewrite hset_length. split; [assumption | split; [assumption | tauto]].
  - (* CRC2: queued *)
    split; [assumption | split; [| tauto]].
    intros b0 Hb. rewrite qbufs_app in Hb. cbn in Hb.
    rewrite !in_app_iff in Hb. cbn in Hb.
    destruct Hb as [[Hb | [Hb | []]] | Hb].
    + apply H2. apply in_or_app. auto.
    + subst. assumption.
    + apply H2. apply in_or_app. auto.
  - (* CRC2: checksum error marker *)
    split; [assumption | split; [| tauto]].
    intros b0 Hb. rewrite qbufs_app in Hb. cbn in Hb. rewrite app_nil_r in Hb. auto.
Qed.

Lemma hinv_process : forall d p, hinv p -> hinv (hprocess false p d).
Proof.
  unfold hprocess. induction d as [|x d IH]; intros p H; simpl; auto.
  apply IH. apply hinv_step. assumption.
Qed.

Lemma hinv_op : forall o p, hinv p -> hinv (hrun_op false p o).
Proof.
  intros o p H. destruct o as [d | l | | | ]; cbn [hrun_op].
  - apply hinv_process. assumption.
  - exact H.
  - destruct H as (H1 & H2 & H3). unfold hinv, hempty_queue. rewrite !exposed_eq in *. prj.
    cbn [qbufs flat_map app].
    split; [assumption | split].
    + intros b Hb. apply H2. apply in_or_app. auto.
    + intros W Hb. apply (H3 W). apply in_or_app. auto.
  - destruct H as (H1 & H2 & H3). unfold hpacket.
    destruct p as [s c i l a b o k cur heap q out rx f]. prj.
    destruct q as [|x q]; cbn [snd].
    + unfold hinv; auto.
    + assert (E : forall n, In n (exposed (mkHP s c i l a b o k cur heap q
                      match x with HPkt _ _ b0 => b0 :: out | HCrcErr => out end rx f))
                    -> In n (exposed (mkHP s c i l a b o k cur heap (x :: q) out rx f))).
      { intros n. rewrite !exposed_eq. prj. destruct x as [c0 i0 b0|]; cbn;
          rewrite !in_app_iff; cbn; tauto. }
      unfold hinv. prj. split; [assumption | split].
      * intros n Hn. apply H2. apply E. assumption.
      * intros W Hn. apply (H3 W). apply E. assumption.
  - destruct H as (H1 & H2 & H3). unfold hinv, hrestart. rewrite !exposed_eq in *. prj.
    split; [assumption | split; [assumption | intros []]].
Qed.

Lemma hinv_run : forall ops p, hinv p -> hinv (hrun false p ops).
Proof.
  unfold hrun. induction ops as [|o ops IH]; intros p H; simpl; auto.
  apply IH. apply hinv_op. assumption.
Qed.

(* ---- frozen buffers ---- *)
Lemma exposed_frozen : forall p b, hinv p -> In b (exposed p) -> frozen p b.
Proof.
  intros p b (H1 & H2 & H3) Hb. split.
  - apply H2. assumption.
  - intros W E. subst. apply (H3 W). assumption.
Qed.

Lemma frozen_step : forall p d b, frozen p b ->
  frozen (hstep false p d) b /\ hget (h_heap (hstep false p d)) b = hget (h_heap p) b.
Proof.
  intros [s c i l a b0 o k cur heap q out rx f] d b.
  unfold frozen, hstep. prj. intros (H1 & H2).
  destruct s; brk; cbn [writing] in *;
    try (split; [split; [assumption | tauto] | reflexivity]).
  - (* allocation *)
    rewrite app_length. cbn [length].
    split; [split; [lia | intros _; lia] | apply hget_app_l; assumption].
  - rewrite hset_length.
    split; [split; [assumption | tauto] | apply hget_hset_other; tauto].
  - rewrite hset_length.
    split; [split; [assumption | tauto] | apply hget_hset_other; tauto].
Qed.

Lemma frozen_process : forall d p b, frozen p b ->
  frozen (hprocess false p d) b /\ hget (h_heap (hprocess false p d)) b = hget (h_heap p) b.
Proof.
  unfold hprocess. induction d as [|x d IH]; intros p b H; simpl; auto.
  destruct (frozen_step p x b H) as (F & E).
  destruct (IH _ b F) as (F' & E').
  split; [assumption | congruence].
Qed.

Lemma frozen_op : forall o p b, frozen p b ->
  frozen (hrun_op false p o) b /\ hget (h_heap (hrun_op false p o)) b = hget (h_heap p) b.
Proof.
  intros o p b H. destruct o as [d | l | | | ]; cbn [hrun_op].
  - apply frozen_process. assumption.
  - split; [exact H | reflexivity].
  - split; [exact H | reflexivity].
  - unfold hpacket. destruct (h_queue p) as [|x q]; cbn [snd]; (split; [exact H | reflexivity]).
  - destruct H as (H1 & H2). unfold frozen, hrestart. prj.
    split; [split; [assumption | intros []] | reflexivity].
Qed.

Lemma frozen_run : forall ops p b, frozen p b ->
  frozen (hrun false p ops) b /\ hget (h_heap (hrun false p ops)) b = hget (h_heap p) b.
Proof.
  unfold hrun. induction ops as [|o ops IH]; intros p b H; simpl; auto.
  destruct (frozen_op o p b H) as (F & E).
  destruct (IH _ b F) as (F' & E').
  split; [assumption | congruence].
Qed.

Lemma payload_immutable : forall ops p b,
  hinv p -> In b (exposed p) ->
  hget (h_heap (hrun false p ops)) b = hget (h_heap p) b.
Proof.
  intros ops p b H Hb. apply frozen_run. apply exposed_frozen; assumption.
Qed.

(* ---- refinement of the value model ---- *)
Lemma heap_refines : forall p d, hinv p -> habs (hstep false p d) = step (habs p) d.
Proof.
  intros [s c i l a b o k cur heap q out rx f] d.
  unfold hinv. rewrite !exposed_eq. prj. intros (H1 & H2 & H3).
  unfold habs, step, hstep, with_st, with_rg. prj.
  destruct s; brk; cbn [writing] in *; try reflexivity.
  - (* allocation *)
    rewrite hget_app_new. unfold regs0. f_equal.
    apply map_deref_ext. intros n Hn. apply hget_app_l. apply H2. apply in_or_app. auto.
  - (* DATA -> CRC1 *)
    rewrite hget_hset_same by assumption. f_equal.
    apply map_deref_ext. intros n Hn. apply hget_hset_other.
    intros E. subst. apply (H3 I). apply in_or_app. auto.
  - (* DATA -> DATA *)
    rewrite hget_hset_same by assumption. f_equal.
    apply map_deref_ext. intros n Hn. apply hget_hset_other.
    intros E. subst. apply (H3 I). apply in_or_app. auto.
  - (* CRC2 queued *)
    rewrite map_app. reflexivity.
  - rewrite map_app. reflexivity.
Qed.

(* ---- reuse of the buffer (msg_data.clear()) breaks immutability ---- *)
Lemma reuse_refuted : exists ops b,
  In b (exposed (hrun true (hfresh (Some [(6, 1)])) ops))
  /\ exists ops', hget (h_heap (hrun true (hrun true (hfresh (Some [(6, 1)])) ops) ops')) b
                  <> hget (h_heap (hrun true (hfresh (Some [(6, 1)])) ops)) b.
Proof.
  exists [HProcess [181; 98; 6; 1; 1; 0; 7; 15; 44]], 0%nat.
  split.
  - vm_compute. left. reflexivity.
  - exists [HProcess [181; 98; 6; 1; 1; 0; 9]]. vm_compute. intros H. discriminate H.
Qed.
