(* Soundness of the UBX parser model (C03): whatever is queued is the emission of a
   left-to-right decomposition of the stream into gaps and frame-shaped occurrences.
   Self-contained: depends on the model files, ChecksumP and FrameP only. *)
From Coq Require Import Lia ZifyBool ZifyN ZifyNat.
From Ubx Require Import Base Checksum Frame ParserUbx ParserUbxSpec ChecksumP FrameP.
Ltac Zify.zify_post_hook ::= Z.to_euclidean_division_equations.

(* ------------------------------------------------------------------ process: basic facts *)
Lemma process_nil p : process p [] = p.
Proof. reflexivity. Qed.

Lemma process_cons p d l : process p (d :: l) = process (step p d) l.
Proof. reflexivity. Qed.

Lemma process_app p l1 l2 : process p (l1 ++ l2) = process (process p l1) l2.
Proof. unfold process. apply fold_left_app. Qed.

Lemma process_concat chunks : forall p,
  fold_left process chunks p = process p (concat chunks).
Proof.
  induction chunks as [|c t IH]; intros p.
  - reflexivity.
  - cbn [fold_left concat]. rewrite process_app. apply IH.
Qed.

(* ------------------------------------------------------------------ single steps *)
Lemma step_CLASS r q n fl d :
  step (mkParser CLASS r q n fl) d =
  mkParser ID (mkRegs d (mid r) (mlen r) (mdata r) (mcka r) (mckb r) (ofs r) (ck_add (cks r) d)) q n fl.
Proof. reflexivity. Qed.

Lemma step_ID r q n fl d :
  step (mkParser ID r q n fl) d =
  mkParser LEN1 (mkRegs (mcls r) d (mlen r) (mdata r) (mcka r) (mckb r) (ofs r) (ck_add (cks r) d)) q n fl.
Proof. reflexivity. Qed.

Lemma step_LEN1 r q n fl d :
  step (mkParser LEN1 r q n fl) d =
  mkParser LEN2 (mkRegs (mcls r) (mid r) d (mdata r) (mcka r) (mckb r) (ofs r) (ck_add (cks r) d)) q n fl.
Proof. reflexivity. Qed.

Lemma step_LEN2_zero c i lo m ka kb o ck q n fl hi :
  lo + hi * 256 = 0 ->
  step (mkParser LEN2 (mkRegs c i lo m ka kb o ck) q n fl) hi =
  mkParser CRC1 (mkRegs c i (lo + hi * 256) m ka kb o (ck_add ck hi)) q n fl.
Proof.
  intros Hz. unfold step.
  cbn [st rg queue rx filt with_rg mcls mid mlen mdata mcka mckb ofs cks].
  destruct (lo + hi * 256 =? 0) eqn:E0; [reflexivity | lia].
Qed.

Lemma step_LEN2_over c i lo m ka kb o ck q n fl hi :
  1000 < lo + hi * 256 ->
  step (mkParser LEN2 (mkRegs c i lo m ka kb o ck) q n fl) hi =
  mkParser INIT (mkRegs c i (lo + hi * 256) m ka kb o (ck_add ck hi)) q n fl.
Proof.
  intros Hz. unfold step, MAX_MESSAGE_LENGTH.
  cbn [st rg queue rx filt with_rg mcls mid mlen mdata mcka mckb ofs cks].
  destruct (lo + hi * 256 =? 0) eqn:E0; [lia|].
  destruct (1000 <? lo + hi * 256) eqn:E1; [reflexivity | lia].
Qed.

Lemma step_LEN2_data c i lo m ka kb o ck q n fl hi :
  lo + hi * 256 <> 0 -> lo + hi * 256 <= 1000 ->
  step (mkParser LEN2 (mkRegs c i lo m ka kb o ck) q n fl) hi =
  mkParser DATA (mkRegs c i (lo + hi * 256) m ka kb 0 (ck_add ck hi)) q n fl.
Proof.
  intros Hnz Hle. unfold step, MAX_MESSAGE_LENGTH.
  cbn [st rg queue rx filt with_rg mcls mid mlen mdata mcka mckb ofs cks].
  destruct (lo + hi * 256 =? 0) eqn:E0; [lia|].
  destruct (1000 <? lo + hi * 256) eqn:E1; [lia | reflexivity].
Qed.

Lemma sync_pair s0 r0 q n fl :
  s0 = INIT \/ s0 = SYNC ->
  process (mkParser s0 r0 q n fl) [181; 98] = mkParser CLASS regs0 q n fl.
Proof. intros [-> | ->]; reflexivity. Qed.

Lemma hdr3 q n fl c i lo :
  process (mkParser CLASS regs0 q n fl) [c; i; lo] =
  mkParser LEN2 (mkRegs c i lo [] 0 0 0 (ck_adds ck_reset [c; i; lo])) q n fl.
Proof. reflexivity. Qed.

(* ------------------------------------------------------------------ the invariant *)
(* [Part s r part]: the registers describe [part], the prefix of a frame rendering
   consumed since the last sync pair began. *)
Definition Part (s : pstate) (r : regs) (part : bytes) : Prop :=
  match s with
  | INIT => part = []
  | SYNC => part = [181]
  | CLASS => part = [181; 98] /\ mdata r = [] /\ cks r = ck_reset
  | ID => part = [181; 98; mcls r] /\ mdata r = [] /\ cks r = ck_adds ck_reset [mcls r]
  | LEN1 => part = [181; 98; mcls r; mid r] /\ mdata r = []
            /\ cks r = ck_adds ck_reset [mcls r; mid r]
  | LEN2 => part = [181; 98; mcls r; mid r; mlen r] /\ mdata r = [] /\ mlen r < 256
            /\ cks r = ck_adds ck_reset [mcls r; mid r; mlen r]
  | DATA => exists lo hi,
            part = [181; 98; mcls r; mid r; lo; hi] ++ mdata r
            /\ mlen r = lo + 256 * hi /\ lo < 256
            /\ ofs r = N.of_nat (length (mdata r)) /\ ofs r < mlen r /\ mlen r <= 1000
            /\ cks r = ck_adds ck_reset ([mcls r; mid r; lo; hi] ++ mdata r)
  | CRC1 => exists lo hi,
            part = [181; 98; mcls r; mid r; lo; hi] ++ mdata r
            /\ mlen r = lo + 256 * hi /\ lo < 256
            /\ mlen r = N.of_nat (length (mdata r)) /\ mlen r <= 1000
            /\ cks r = ck_adds ck_reset ([mcls r; mid r; lo; hi] ++ mdata r)
  | CRC2 => exists lo hi,
            part = [181; 98; mcls r; mid r; lo; hi] ++ mdata r ++ [mcka r]
            /\ mlen r = lo + 256 * hi /\ lo < 256
            /\ mlen r = N.of_nat (length (mdata r)) /\ mlen r <= 1000
            /\ cks r = ck_adds ck_reset ([mcls r; mid r; lo; hi] ++ mdata r)
  end.

Definition Inv (f : option (list cid)) (consumed : bytes) (p : parser) : Prop :=
  exists pre os part,
    consumed = pre ++ part /\ Dec pre os
    /\ queue p = flat_map (emit f) os
    /\ rx p = N.of_nat (count_valid os)
    /\ filt p = f
    /\ Part (st p) (rg p) part.

(* Introduction form: an (optional) gap g between the decomposed prefix and the partial frame *)
Lemma Inv_intro f consumed p pre g os part :
  Dec pre os ->
  consumed = (pre ++ g) ++ part ->
  queue p = flat_map (emit f) os ->
  rx p = N.of_nat (count_valid os) ->
  filt p = f ->
  Part (st p) (rg p) part ->
  Inv f consumed p.
Proof.
  intros HD Hc Hq Hrx Hf HP.
  exists (pre ++ g), os, part.
  repeat split; try assumption. apply Dec_gap; exact HD.
Qed.

Ltac norm_app := repeat first [rewrite <- app_assoc | progress cbn [app]]; rewrite ?app_nil_r.

Lemma count_valid_snoc os o :
  count_valid (os ++ [o]) = (count_valid os + (if valid_b o then 1 else 0))%nat.
Proof.
  unfold count_valid. rewrite filter_app, app_length. cbn [filter].
  destruct (valid_b o); reflexivity.
Qed.

Lemma flat_map_snoc f os o :
  flat_map (emit f) (os ++ [o]) = flat_map (emit f) os ++ emit f o.
Proof. rewrite flat_map_app. cbn [flat_map]. rewrite app_nil_r. reflexivity. Qed.

Lemma render_eq c i m ka d lo hi :
  N.of_nat (length m) = lo + 256 * hi -> lo < 256 ->
  render (mkOcc c i m ka d) = ([181; 98; c; i; lo; hi] ++ m ++ [ka]) ++ [d].
Proof.
  intros Hn Hlo. unfold render, wire_hdr. cbn [oc oi opl ok1 ok2].
  replace (N.of_nat (length m) mod 256) with lo by lia.
  replace (N.of_nat (length m) / 256) with hi by lia.
  norm_app. reflexivity.
Qed.

Lemma matches_valid c i m ka d lo hi ck :
  N.of_nat (length m) = lo + 256 * hi -> lo < 256 ->
  ck = ck_adds ck_reset ([c; i; lo; hi] ++ m) ->
  ck_matches ck ka d = valid_b (mkOcc c i m ka d).
Proof.
  intros Hn Hlo ->. rewrite fletcher_all.
  unfold valid_b, wire_hdr, ck_matches. cbn [oc oi opl ok1 ok2].
  replace (N.of_nat (length m) mod 256) with lo by lia.
  replace (N.of_nat (length m) / 256) with hi by lia.
  reflexivity.
Qed.

Ltac auto_inv := try solve [assumption | reflexivity | norm_app; reflexivity].

Lemma step_inv f consumed p d :
  d < 256 -> Inv f consumed p -> Inv f (consumed ++ [d]) (step p d).
Proof.
  intros Hd (pre & os & part & Hc & HD & Hq & Hrx & Hf & HP).
  destruct p as [s r q n fl]. cbn [st rg queue rx filt] in *.
  subst consumed.
  destruct s; cbn [Part] in HP.
  - (* INIT *)
    subst part. unfold step; cbn [st].
    destruct (d =? 181) eqn:E.
    + apply N.eqb_eq in E; subst d.
      apply (Inv_intro f _ _ pre [] os [181]); cbn [with_st st rg queue rx filt Part];
        auto_inv.
    + apply (Inv_intro f _ _ pre [d] os []); cbn [st rg queue rx filt Part];
        auto_inv.
  - (* SYNC *)
    subst part. unfold step; cbn [st].
    destruct (d =? 98) eqn:E98.
    + apply N.eqb_eq in E98; subst d.
      apply (Inv_intro f _ _ pre [] os [181; 98]); cbn [with_rg st rg queue rx filt Part];
        auto_inv.
      repeat split; reflexivity.
    + destruct (d =? 181) eqn:E181.
      * apply N.eqb_eq in E181; subst d.
        apply (Inv_intro f _ _ pre [181] os [181]); cbn [st rg queue rx filt Part];
          auto_inv.
      * apply (Inv_intro f _ _ pre [181; d] os []); cbn [with_st st rg queue rx filt Part];
          auto_inv.
  - (* CLASS *)
    destruct HP as (Hp & Hm & Hck). subst part. rewrite step_CLASS.
    apply (Inv_intro f _ _ pre [] os [181; 98; d]);
      cbn [st rg queue rx filt Part mcls mid mlen mdata mcka mckb ofs cks]; auto_inv.
    + rewrite Hck. repeat split; try assumption; reflexivity.
  - (* ID *)
    destruct HP as (Hp & Hm & Hck). subst part. rewrite step_ID.
    apply (Inv_intro f _ _ pre [] os [181; 98; mcls r; d]);
      cbn [st rg queue rx filt Part mcls mid mlen mdata mcka mckb ofs cks]; auto_inv.
    + rewrite Hck. repeat split; try assumption; reflexivity.
  - (* LEN1 *)
    destruct HP as (Hp & Hm & Hck). subst part. rewrite step_LEN1.
    apply (Inv_intro f _ _ pre [] os [181; 98; mcls r; mid r; d]);
      cbn [st rg queue rx filt Part mcls mid mlen mdata mcka mckb ofs cks]; auto_inv.
    + rewrite Hck. repeat split; try assumption; reflexivity.
  - (* LEN2 *)
    destruct HP as (Hp & Hm & Hlo & Hck). subst part.
    destruct r as [c i lo m ka kb o ck].
    cbn [mcls mid mlen mdata mcka mckb ofs cks] in *. subst m.
    destruct (N.eq_dec (lo + d * 256) 0) as [Hz | Hnz].
    + rewrite step_LEN2_zero by exact Hz.
      apply (Inv_intro f _ _ pre [] os ([181; 98; c; i; lo; d] ++ []));
        cbn [st rg queue rx filt Part mcls mid mlen mdata mcka mckb ofs cks]; auto_inv.
      * exists lo, d. cbn [length]. repeat split; try lia.
        rewrite Hck. reflexivity.
    + destruct (N.lt_ge_cases 1000 (lo + d * 256)) as [Hov | Hle].
      * rewrite step_LEN2_over by exact Hov.
        apply (Inv_intro f _ _ pre [181; 98; c; i; lo; d] os []);
          cbn [st rg queue rx filt Part]; auto_inv.
      * rewrite step_LEN2_data by assumption.
        apply (Inv_intro f _ _ pre [] os ([181; 98; c; i; lo; d] ++ []));
          cbn [st rg queue rx filt Part mcls mid mlen mdata mcka mckb ofs cks]; auto_inv.
        -- exists lo, d. cbn [length]. repeat split; try lia.
           rewrite Hck. reflexivity.
  - (* DATA *)
    destruct HP as (lo & hi & Hp & Hlen & Hlo & Hofs & Hlt & Hmax & Hck). subst part.
    unfold step; cbn [st rg].
    destruct (ofs r + 1 =? mlen r) eqn:E.
    + apply (Inv_intro f _ _ pre [] os ([181; 98; mcls r; mid r; lo; hi] ++ mdata r ++ [d]));
        cbn [with_rg st rg queue rx filt Part mcls mid mlen mdata mcka mckb ofs cks];
        auto_inv.
      * exists lo, hi. rewrite app_length. cbn [length].
        repeat split; try assumption; try lia.
        rewrite Hck, app_assoc, ck_adds_snoc. reflexivity.
    + apply (Inv_intro f _ _ pre [] os ([181; 98; mcls r; mid r; lo; hi] ++ mdata r ++ [d]));
        cbn [with_rg st rg queue rx filt Part mcls mid mlen mdata mcka mckb ofs cks];
        auto_inv.
      * exists lo, hi. rewrite app_length. cbn [length].
        repeat split; try assumption; try lia.
        rewrite Hck, app_assoc, ck_adds_snoc. reflexivity.
  - (* CRC1 *)
    destruct HP as (lo & hi & Hp & Hlen & Hlo & Hn & Hmax & Hck). subst part.
    unfold step; cbn [st rg].
    apply (Inv_intro f _ _ pre [] os ([181; 98; mcls r; mid r; lo; hi] ++ mdata r ++ [d]));
      cbn [with_rg st rg queue rx filt Part mcls mid mlen mdata mcka mckb ofs cks];
      auto_inv.
    + exists lo, hi. repeat split; assumption.
  - (* CRC2 *)
    destruct HP as (lo & hi & Hp & Hlen & Hlo & Hn & Hmax & Hck). subst part.
    unfold step; cbn [st rg queue rx filt].
    set (o := mkOcc (mcls r) (mid r) (mdata r) (mcka r) d).
    assert (Hn' : N.of_nat (length (mdata r)) = lo + 256 * hi) by lia.
    rewrite (matches_valid (mcls r) (mid r) (mdata r) (mcka r) d lo hi (cks r) Hn' Hlo Hck).
    fold o.
    assert (HD' : Dec (pre ++ render o) (os ++ [o])).
    { apply Dec_occ; [exact HD|]. unfold o; cbn [opl]. lia. }
    assert (Hcons : (pre ++ [181; 98; mcls r; mid r; lo; hi] ++ mdata r ++ [mcka r]) ++ [d]
                    = (pre ++ render o) ++ []).
    { unfold o. rewrite (render_eq _ _ _ _ _ lo hi Hn' Hlo). norm_app. reflexivity. }
    rewrite Hcons.
    assert (Hem : emit f o = if valid_b o
                             then (if in_filter f (mcls r, mid r)
                                   then [Pkt (mcls r) (mid r) (mdata r)] else [])
                             else [CrcErr]) by reflexivity.
    exists (pre ++ render o), (os ++ [o]), [].
    rewrite flat_map_snoc, count_valid_snoc, Hem. subst fl.
    destruct (valid_b o) eqn:V.
    + destruct (in_filter f (mcls r, mid r)) eqn:F; cbn [st rg queue rx filt Part];
        repeat split; try assumption; try reflexivity; try lia.
      * rewrite Hq. reflexivity.
      * rewrite Hq, app_nil_r. reflexivity.
    + cbn [st rg queue rx filt Part].
      repeat split; try assumption; try reflexivity; try lia.
      rewrite Hq. reflexivity.
Qed.

Lemma process_inv f s : forall consumed p,
  Forall (fun b => b < 256) s -> Inv f consumed p -> Inv f (consumed ++ s) (process p s).
Proof.
  induction s as [|d t IH]; intros consumed p Hb HI.
  - rewrite app_nil_r. exact HI.
  - inversion Hb as [|d' t' Hd Ht]; subst.
    rewrite process_cons.
    replace (consumed ++ d :: t) with ((consumed ++ [d]) ++ t) by (norm_app; reflexivity).
    apply IH; [exact Ht|]. apply step_inv; assumption.
Qed.

Lemma Inv_fresh f : Inv f [] (fresh f).
Proof.
  exists [], [], []. unfold fresh; cbn [st rg queue rx filt Part flat_map].
  repeat split; try reflexivity. apply Dec_nil.
Qed.

Theorem sound_all_streams : forall f s,
  Forall (fun b => b < 256) s ->
  exists os, Dec s os
    /\ queue (process (fresh f) s) = flat_map (emit f) os
    /\ rx (process (fresh f) s) = N.of_nat (count_valid os).
Proof.
  intros f s Hb.
  destruct (process_inv f s [] (fresh f) Hb (Inv_fresh f))
    as (pre & os & part & Hc & HD & Hq & Hrx & Hf & HP).
  cbn [app] in Hc. exists os. subst s.
  repeat split; try assumption. apply Dec_gap; exact HD.
Qed.

Theorem sound_chunked : forall f chunks,
  Forall (fun b => b < 256) (concat chunks) ->
  exists os, Dec (concat chunks) os
    /\ queue (fold_left process chunks (fresh f)) = flat_map (emit f) os
    /\ rx (fold_left process chunks (fresh f)) = N.of_nat (count_valid os).
Proof.
  intros f chunks Hb. rewrite process_concat. apply sound_all_streams; exact Hb.
Qed.

(* ------------------------------------------------------------------ overlength headers *)
(* Same observable state and control state; registers may differ only where they are dead
   (INIT, SYNC: the SYNC -> CLASS transition installs regs0). *)
Definition sim (a b : parser) : Prop :=
  st a = st b /\ queue a = queue b /\ rx a = rx b /\ filt a = filt b
  /\ (st a = INIT \/ st a = SYNC \/ rg a = rg b).

Lemma sim_step a b d : sim a b -> sim (step a d) (step b d).
Proof.
  destruct a as [sa ra qa na fa], b as [sb rb qb nb fb].
  unfold sim; cbn [st rg queue rx filt].
  intros (Hs & Hq & Hn & Hf & Hr). subst sb qb nb fb.
  destruct Hr as [Hi | [Hsy | Hr]].
  - subst sa. unfold step; cbn [st].
    destruct (d =? 181); cbn [with_st st rg queue rx filt]; repeat split; auto.
  - subst sa. unfold step; cbn [st].
    destruct (d =? 98); [|destruct (d =? 181)];
      cbn [with_st with_rg st rg queue rx filt]; repeat split; auto.
  - subst rb. repeat split; auto.
Qed.

Lemma sim_process r : forall a b, sim a b -> sim (process a r) (process b r).
Proof.
  induction r as [|d t IH]; intros a b H; [exact H|].
  rewrite !process_cons. apply IH. apply sim_step. exact H.
Qed.

Lemma over6 s0 r0 q n fl c i lo hi :
  s0 = INIT \/ s0 = SYNC -> 1000 < lo + 256 * hi ->
  exists r', process (mkParser s0 r0 q n fl) [181; 98; c; i; lo; hi] = mkParser INIT r' q n fl.
Proof.
  intros Hs Hov.
  change [181; 98; c; i; lo; hi] with ([181; 98] ++ [c; i; lo] ++ [hi]).
  rewrite !process_app, (sync_pair _ _ _ _ _ Hs), hdr3.
  rewrite process_cons, process_nil.
  rewrite step_LEN2_over by lia.
  eexists; reflexivity.
Qed.

Theorem overlength_transparent : forall p c i lo hi r,
  (st p = INIT \/ st p = SYNC) -> 1000 < lo + 256 * hi ->
  let a := process p ([181; 98; c; i; lo; hi] ++ r) in
  let b := process (restart p) r in
  queue a = queue b /\ rx a = rx b /\ filt a = filt b /\ st a = st b.
Proof.
  intros p c i lo hi r Hst Hov a b. subst a b.
  destruct p as [s0 r0 q n fl]. cbn [st] in Hst.
  rewrite process_app.
  destruct (over6 s0 r0 q n fl c i lo hi Hst Hov) as [r' E]. rewrite E.
  assert (HS : sim (mkParser INIT r' q n fl) (restart (mkParser s0 r0 q n fl))).
  { unfold sim, restart; cbn [with_st st rg queue rx filt]. repeat split; auto. }
  destruct (sim_process r _ _ HS) as (H1 & H2 & H3 & H4 & _).
  repeat split; assumption.
Qed.

(* ------------------------------------------------------------------ one frame, symbolically *)
Lemma data_phase q n fl c i len ka kb : forall pl d m o ck,
  o + N.of_nat (length (d :: pl)) = len ->
  process (mkParser DATA (mkRegs c i len m ka kb o ck) q n fl) (d :: pl) =
  mkParser CRC1 (mkRegs c i len (m ++ d :: pl) ka kb len (ck_adds ck (d :: pl))) q n fl.
Proof.
  induction pl as [|e t IH]; intros d m o ck Hlen.
  - rewrite process_cons, process_nil. unfold step, with_rg.
    cbn [st rg queue rx filt with_rg mcls mid mlen mdata mcka mckb ofs cks].
    cbn [length] in Hlen.
    destruct (o + 1 =? len) eqn:E; [|lia].
    apply N.eqb_eq in E. rewrite E. reflexivity.
  - rewrite process_cons. unfold step, with_rg.
    cbn [st rg queue rx filt with_rg mcls mid mlen mdata mcka mckb ofs cks].
    cbn [length] in Hlen.
    destruct (o + 1 =? len) eqn:E; [lia|].
    rewrite IH by (cbn [length]; lia).
    replace ((m ++ [d]) ++ e :: t) with (m ++ d :: e :: t) by (norm_app; reflexivity).
    reflexivity.
Qed.

Lemma frame_to_crc1 q n fl c i pl :
  (length pl <= 1000)%nat ->
  exists o, process (mkParser CLASS regs0 q n fl) (wire_hdr c i pl ++ pl) =
    mkParser CRC1 (mkRegs c i (N.of_nat (length pl)) pl 0 0 o
                          (fletcher (wire_hdr c i pl ++ pl))) q n fl.
Proof.
  intros Hlen. rewrite <- fletcher_all. unfold wire_hdr.
  set (L := N.of_nat (length pl)).
  assert (HL : L mod 256 + L / 256 * 256 = L) by lia.
  assert (HL1000 : L <= 1000) by lia.
  change [c; i; L mod 256; L / 256] with ([c; i; L mod 256] ++ [L / 256]).
  rewrite !process_app, hdr3, process_cons, process_nil.
  destruct pl as [|d t].
  - rewrite step_LEN2_zero by (cbn [length] in L; lia).
    rewrite process_nil, HL. eexists. reflexivity.
  - rewrite step_LEN2_data by (cbn [length] in L; lia).
    rewrite HL.
    rewrite data_phase by (fold L; lia).
    exists L. cbn [app].
    rewrite <- ck_adds_snoc, <- ck_adds_app. reflexivity.
Qed.

Lemma frame_run q n fl c i pl k1 k2 :
  (length pl <= 1000)%nat ->
  exists r',
    process (mkParser CLASS regs0 q n fl) (wire_hdr c i pl ++ pl ++ [k1; k2]) =
    if ck_matches (fletcher (wire_hdr c i pl ++ pl)) k1 k2
    then if in_filter fl (c, i)
         then mkParser INIT r' (q ++ [Pkt c i pl]) (n + 1) fl
         else mkParser INIT r' q (n + 1) fl
    else mkParser INIT r' (q ++ [CrcErr]) n fl.
Proof.
  intros Hlen. rewrite app_assoc, process_app.
  destruct (frame_to_crc1 q n fl c i pl Hlen) as [o E]. rewrite E.
  rewrite !process_cons, process_nil.
  unfold step; cbn [st rg queue rx filt with_rg mcls mid mlen mdata mcka mckb ofs cks].
  eexists.
  destruct (ck_matches (fletcher (wire_hdr c i pl ++ pl)) k1 k2);
    [destruct (in_filter fl (c, i))|]; reflexivity.
Qed.

Theorem one_marker : forall p c i pl k1 k2,
  (st p = INIT \/ st p = SYNC) -> (length pl <= 1000)%nat ->
  (k1, k2) <> fletcher (wire_hdr c i pl ++ pl) ->
  let a := process p ([181; 98] ++ wire_hdr c i pl ++ pl ++ [k1; k2]) in
  queue a = queue p ++ [CrcErr] /\ rx a = rx p /\ st a = INIT.
Proof.
  intros p c i pl k1 k2 Hst Hlen Hk a. subst a.
  destruct p as [s0 r0 q n fl]. cbn [st queue rx] in *.
  rewrite process_app, (sync_pair _ _ _ _ _ Hst).
  destruct (frame_run q n fl c i pl k1 k2 Hlen) as [r' E]. rewrite E.
  destruct (ck_matches (fletcher (wire_hdr c i pl ++ pl)) k1 k2) eqn:M.
  - apply matches_iff in M. unfold ck_value in M. congruence.
  - cbn [st queue rx]. repeat split; reflexivity.
Qed.

(* ------------------------------------------------------------------ non-vacuity *)
Example sound_nonvacuous :
  exists os, os <> [] /\ Dec ([0; 181] ++ wire 6 1 [7] ++ [181; 98; 5; 1; 0; 0; 9; 9]) os
   /\ queue (process (fresh (Some [(6, 1)])) ([0; 181] ++ wire 6 1 [7] ++ [181; 98; 5; 1; 0; 0; 9; 9]))
      = flat_map (emit (Some [(6, 1)])) os
   /\ flat_map (emit (Some [(6, 1)])) os = [Pkt 6 1 [7]; CrcErr].
Proof.
  exists [mkOcc 6 1 [7] 15 44; mkOcc 5 1 [] 9 9].
  split; [discriminate|]. split; [|split; vm_compute; reflexivity].
  assert (H : Dec ((([] ++ [0; 181]) ++ render (mkOcc 6 1 [7] 15 44)) ++ render (mkOcc 5 1 [] 9 9))
                  (([] ++ [mkOcc 6 1 [7] 15 44]) ++ [mkOcc 5 1 [] 9 9])).
  { apply Dec_occ; [apply Dec_occ; [apply Dec_gap; apply Dec_nil|]|]; cbn [opl length]; lia. }
  vm_compute in H |- *. exact H.
Qed.
