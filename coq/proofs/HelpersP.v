(* Proofs for C17: convenience setters (CFG-GNSS enable/disable/presets, CFG-RATE, CFG-CFG,
   CFG-RST, CFG-ESFLA). *)
From Coq Require Import DecimalString DecimalNat Lia.
From Ubx Require Import Fields Base FieldsSpec Helpers.
Local Open Scope Z_scope.

(* ======================================================================================= *)
(* Field names                                                                              *)

Lemma append_cancel : forall p a b : string, append p a = append p b -> a = b.
Proof.
  induction p as [|c p IH]; intros a b H; cbn [append] in H.
  - exact H.
  - injection H as H. apply IH. exact H.
Qed.

Lemma dec_inj : forall i j : nat, dec i = dec j -> i = j.
Proof.
  intros i j H. unfold dec in H.
  assert (E : Some (Nat.to_uint i) = Some (Nat.to_uint j)).
  { rewrite <- (NilEmpty.usu (Nat.to_uint i)), <- (NilEmpty.usu (Nat.to_uint j)), H. reflexivity. }
  injection E as E.
  rewrite <- (Unsigned.of_to i), <- (Unsigned.of_to j), E. reflexivity.
Qed.

Lemma fname_inj : forall b i j, fname b i = fname b j -> i = j.
Proof.
  intros b i j H. unfold fname in H.
  apply append_cancel in H. apply append_cancel in H. apply dec_inj. exact H.
Qed.

Lemma fname_eqb : forall b i j, String.eqb (fname b i) (fname b j) = Nat.eqb i j.
Proof.
  intros b i j. destruct (Nat.eqb i j) eqn:E.
  - apply Nat.eqb_eq in E. subst j. apply String.eqb_refl.
  - apply String.eqb_neq. intro H. apply fname_inj in H. apply Nat.eqb_neq in E. contradiction.
Qed.

(* Resolve every name comparison in the goal: same base -> index comparison,
   different (literal) bases -> false by computation on the literal prefixes. *)
Ltac names :=
  repeat match goal with
  | |- context [String.eqb (fname ?a ?i) (fname ?a ?j)] => rewrite (fname_eqb a i j)
  | |- context [String.eqb (fname ?a ?i) (fname ?b ?j)] =>
      change (String.eqb (fname a i) (fname b j)) with false
  | |- context [String.eqb (String ?c ?s) (fname ?b ?j)] =>
      change (String.eqb (String c s) (fname b j)) with false
  end.

Lemma eqb_add_S : forall i k : nat, Nat.eqb i (i + S k) = false.
Proof. intros i k. apply Nat.eqb_neq. lia. Qed.

(* ======================================================================================= *)
(* Generic getf / setf facts                                                                *)

Lemma in_getf : forall (fs : fields) name t x, In (name, t, x) fs -> getf fs name <> None.
Proof.
  induction fs as [|[[n t0] x0] rest IH]; intros name t x HIn; cbn [getf].
  - destruct HIn.
  - destruct (String.eqb n name) eqn:E.
    + discriminate.
    + destruct HIn as [HIn|HIn].
      * injection HIn as Hn _ _. subst n. rewrite String.eqb_refl in E. discriminate.
      * eapply IH. exact HIn.
Qed.

Lemma getf_setf_same : forall (fs : fields) name v,
  getf fs name <> None -> getf (setf fs name v) name = Some v.
Proof.
  induction fs as [|[[n t0] x0] rest IH]; intros name v H; cbn [getf setf] in *.
  - contradiction.
  - destruct (String.eqb n name) eqn:E; cbn [getf]; rewrite E.
    + reflexivity.
    + apply IH. exact H.
Qed.

Lemma getf_setf_other : forall (fs : fields) name v m,
  m <> name -> getf (setf fs name v) m = getf fs m.
Proof.
  induction fs as [|[[n t0] x0] rest IH]; intros name v m H; cbn [getf setf].
  - reflexivity.
  - destruct (String.eqb n name) eqn:E; cbn [getf].
    + apply String.eqb_eq in E. subst n.
      destruct (String.eqb name m) eqn:E2.
      * apply String.eqb_eq in E2. subst m. contradiction.
      * reflexivity.
    + destruct (String.eqb n m) eqn:E2.
      * reflexivity.
      * apply IH. exact H.
Qed.

Lemma layout_setf : forall (fs : fields) name v, layout_of (setf fs name v) = layout_of fs.
Proof.
  induction fs as [|[[n t0] x0] rest IH]; intros name v; cbn [setf].
  - reflexivity.
  - destruct (String.eqb n name) eqn:E; unfold layout_of in *; cbn [map fst snd].
    + reflexivity.
    + rewrite IH. reflexivity.
Qed.

Lemma has_setf : forall (fs : fields) name v m,
  getf fs m <> None -> getf (setf fs name v) m <> None.
Proof.
  intros fs name v m H. destruct (String.eqb m name) eqn:E.
  - apply String.eqb_eq in E. subst m. rewrite getf_setf_same by exact H. discriminate.
  - apply String.eqb_neq in E. rewrite getf_setf_other by exact E. exact H.
Qed.

Lemma ex_getf : forall (fs : fields) name,
  (exists t x, In (name, t, x) fs) -> getf fs name <> None.
Proof. intros fs name [t [x H]]. eapply in_getf. exact H. Qed.

Theorem setf_frame : forall fs name v,
  (exists t x, In (name, t, x) fs) ->
  getf (setf fs name v) name = Some v
  /\ (forall n, n <> name -> getf (setf fs name v) n = getf fs n)
  /\ layout_of (setf fs name v) = layout_of fs.
Proof.
  intros fs name v H. split; [|split].
  - apply getf_setf_same. apply ex_getf. exact H.
  - intros n Hn. apply getf_setf_other. exact Hn.
  - apply layout_setf.
Qed.

(* ======================================================================================= *)
(* CFG-RATE, CFG-CFG, CFG-RST, CFG-ESFLA set                                                *)

Theorem rate_ok : forall fs rate, (1 <= rate <= 10)%Z ->
  names_unique (map (fun x => fst (fst x)) fs) = true ->
  (exists t1 v1, In ("measRate"%string, t1, v1) fs) -> (exists t2 v2, In ("navRate"%string, t2, v2) fs) ->
  exists fs', set_rate_in_hz fs rate = Ok fs'
    /\ getf fs' "measRate" = Some (VInt (1000 / rate)) /\ getf fs' "navRate" = Some (VInt 1)
    /\ (forall n, n <> "measRate"%string -> n <> "navRate"%string -> getf fs' n = getf fs n)
    /\ layout_of fs' = layout_of fs.
Proof.
  intros fs rate Hr _ Hm Hn. apply ex_getf in Hm. apply ex_getf in Hn.
  unfold set_rate_in_hz.
  assert (E : negb ((1 <=? rate) && (rate <=? 10)) = false).
  { apply negb_false_iff, andb_true_iff. split; apply Z.leb_le; lia. }
  rewrite E. eexists. split; [reflexivity|]. split; [|split; [|split]].
  - rewrite getf_setf_other by discriminate. apply getf_setf_same. exact Hm.
  - apply getf_setf_same. apply has_setf. exact Hn.
  - intros n H1 H2. rewrite getf_setf_other by exact H2. apply getf_setf_other. exact H1.
  - rewrite !layout_setf. reflexivity.
Qed.

Theorem cfg_masks_ok : forall fs m,
  (exists t x, In ("clearMask"%string, t, x) fs) -> (exists t x, In ("saveMask"%string, t, x) fs) ->
  (exists t x, In ("loadMask"%string, t, x) fs) ->
  (getf (cfg_save fs m) "clearMask" = Some (VInt 0) /\ getf (cfg_save fs m) "saveMask" = Some (VInt m)
   /\ getf (cfg_save fs m) "loadMask" = Some (VInt 0))
  /\ (getf (cfg_reset fs m) "clearMask" = Some (VInt m) /\ getf (cfg_reset fs m) "saveMask" = Some (VInt 0)
      /\ getf (cfg_reset fs m) "loadMask" = Some (VInt m)).
Proof.
  intros fs m Hc Hs Hl. apply ex_getf in Hc. apply ex_getf in Hs. apply ex_getf in Hl.
  unfold cfg_save, cfg_reset. repeat split.
  - rewrite getf_setf_other by discriminate. apply getf_setf_same. apply has_setf. exact Hc.
  - rewrite 2 getf_setf_other by discriminate. apply getf_setf_same. exact Hs.
  - apply getf_setf_same. do 2 apply has_setf. exact Hl.
  - rewrite 2 getf_setf_other by discriminate. apply getf_setf_same. exact Hc.
  - apply getf_setf_same. do 2 apply has_setf. exact Hs.
  - rewrite getf_setf_other by discriminate. apply getf_setf_same. apply has_setf. exact Hl.
Qed.

Lemma rst_pair : forall fs mode mask,
  getf fs "navBbrMask" <> None -> getf fs "resetMode" <> None ->
  (getf (rst fs mode mask) "navBbrMask", getf (rst fs mode mask) "resetMode")
  = (Some (VInt mask), Some (VInt mode)).
Proof.
  intros fs mode mask Hn Hr. unfold rst. f_equal.
  - apply getf_setf_same. apply has_setf. exact Hn.
  - rewrite getf_setf_other by discriminate. apply getf_setf_same. exact Hr.
Qed.

Theorem rst_ok : forall fs,
  (exists t x, In ("navBbrMask"%string, t, x) fs) -> (exists t x, In ("resetMode"%string, t, x) fs) ->
  let pair f := (getf f "navBbrMask", getf f "resetMode") in
  pair (warm_start fs) = (Some (VInt 1), Some (VInt 1))
  /\ pair (cold_start fs) = (Some (VInt 65535), Some (VInt 1))
  /\ pair (rst_start fs) = (Some (VInt 0), Some (VInt 9))
  /\ pair (rst_stop fs) = (Some (VInt 0), Some (VInt 8)).
Proof.
  intros fs Hn Hr. apply ex_getf in Hn. apply ex_getf in Hr.
  cbv zeta. unfold warm_start, cold_start, rst_start, rst_stop.
  repeat split; apply rst_pair; assumption.
Qed.

Theorem esfla_set_ok : forall fs t x y z,
  (t <= 1)%Z -> (-1000 <= x <= 1000)%Z -> (-1000 <= y <= 1000)%Z -> (-1000 <= z <= 1000)%Z ->
  esfla_set fs t x y z
  = Ok (setf (setf (setf (setf fs "leverArmType" (VInt t)) "leverArmX" (VInt x)) "leverArmY" (VInt y)) "leverArmZ" (VInt z)).
Proof.
  intros fs t x y z Ht Hx Hy Hz. unfold esfla_set.
  assert (Et : negb (t <=? 1) = false) by (apply negb_false_iff, Z.leb_le; lia).
  assert (Ex : negb ((-1000 <=? x) && (x <=? 1000)) = false).
  { apply negb_false_iff, andb_true_iff. split; apply Z.leb_le; lia. }
  assert (Ey : negb ((-1000 <=? y) && (y <=? 1000)) = false).
  { apply negb_false_iff, andb_true_iff. split; apply Z.leb_le; lia. }
  assert (Ez : negb ((-1000 <=? z) && (z <=? 1000)) = false).
  { apply negb_false_iff, andb_true_iff. split; apply Z.leb_le; lia. }
  rewrite Et, Ex, Ey, Ez. reflexivity.
Qed.

(* ======================================================================================= *)
(* bit 0 only                                                                               *)

Theorem bit0_only : forall v k, (0 < k)%Z ->
  Z.testbit (Z.lor v 1) k = Z.testbit v k /\ Z.testbit (Z.land v (-2)) k = Z.testbit v k
  /\ Z.testbit (Z.lor v 1) 0 = true /\ Z.testbit (Z.land v (-2)) 0 = false.
Proof.
  intros v k Hk. rewrite !Z.lor_spec, !Z.land_spec.
  destruct k as [|p|p]; [lia| |lia].
  assert (E1 : Z.testbit 1 (Z.pos p) = false) by reflexivity.
  assert (E2 : Z.testbit (-2) (Z.pos p) = true) by reflexivity.
  assert (E3 : Z.testbit 1 0 = true) by reflexivity.
  assert (E4 : Z.testbit (-2) 0 = false) by reflexivity.
  rewrite E1, E2, E3, E4.
  rewrite orb_false_r, andb_true_r, orb_true_r, andb_false_r. repeat split.
Qed.

(* ======================================================================================= *)
(* spec_enable                                                                              *)

Theorem spec_enable_absent : forall on sys bs,
  Forall (fun b => g_id b <> sys) bs -> spec_enable on sys bs = bs.
Proof.
  intros on sys bs H. induction H as [|b t Hb Ht IH]; cbn [spec_enable].
  - reflexivity.
  - apply Z.eqb_neq in Hb. rewrite Hb, IH. reflexivity.
Qed.

Theorem spec_enable_first : forall on sys pre b post,
  Forall (fun x => g_id x <> sys) pre -> g_id b = sys ->
  spec_enable on sys (pre ++ b :: post)
  = pre ++ mkG (g_id b) (g_res b) (g_max b) (if on then Z.lor (g_flags b) 1 else Z.land (g_flags b) (-2)) :: post.
Proof.
  intros on sys pre b post H Hb. induction H as [|a t Ha Ht IH]; cbn [spec_enable app].
  - apply Z.eqb_eq in Hb. rewrite Hb. reflexivity.
  - apply Z.eqb_neq in Ha. rewrite Ha, IH. reflexivity.
Qed.

(* index of the first block with the given id *)
Fixpoint first_idx (sys : Z) (bs : list gblock) : option nat :=
  match bs with
  | [] => None
  | b :: t => if g_id b =? sys then Some O else option_map S (first_idx sys t)
  end.

(* overwrite the flags word of block k *)
Fixpoint set_flags (k : nat) (v : Z) (bs : list gblock) {struct bs} : list gblock :=
  match bs with
  | [] => []
  | b :: t => match k with
              | O => mkG (g_id b) (g_res b) (g_max b) v :: t
              | S k' => b :: set_flags k' v t
              end
  end.

Lemma spec_enable_idx : forall on sys bs,
  match first_idx sys bs with
  | None => spec_enable on sys bs = bs
  | Some k => exists b, nth_error bs k = Some b
                /\ spec_enable on sys bs
                   = set_flags k (if on then Z.lor (g_flags b) 1 else Z.land (g_flags b) (-2)) bs
  end.
Proof.
  intros on sys bs. induction bs as [|b t IH]; cbn [first_idx spec_enable].
  - reflexivity.
  - destruct (g_id b =? sys) eqn:E.
    + exists b. split; reflexivity.
    + destruct (first_idx sys t) as [k|]; cbn [option_map].
      * destruct IH as [b' [Hn Hs]]. exists b'. split; [exact Hn|].
        cbn [set_flags]. rewrite Hs. reflexivity.
      * rewrite IH. reflexivity.
Qed.

Lemma spec_enable_length : forall on sys bs, List.length (spec_enable on sys bs) = List.length bs.
Proof.
  intros on sys bs. induction bs as [|b t IH]; cbn [spec_enable].
  - reflexivity.
  - destruct (g_id b =? sys); cbn [List.length]; [reflexivity | rewrite IH; reflexivity].
Qed.

(* ======================================================================================= *)
(* Lookups in the block part of a CFG-GNSS frame                                            *)

Lemma getf_gblocks_id : forall bs i k b, nth_error bs k = Some b ->
  getf (gblocks_fields i bs) (fname "gnssId" (i + k)) = Some (VInt (g_id b)).
Proof.
  induction bs as [|a t IH]; intros i k b H.
  - destruct k; discriminate H.
  - cbn [gblocks_fields gblock_fields app getf]. destruct k as [|k]; cbn [nth_error] in H.
    + injection H as H. subst a. rewrite Nat.add_0_r, String.eqb_refl. reflexivity.
    + names. rewrite eqb_add_S. rewrite Nat.add_succ_r. apply (IH (S i) k b H).
Qed.

Lemma getf_gblocks_flags : forall bs i k b, nth_error bs k = Some b ->
  getf (gblocks_fields i bs) (fname "flags" (i + k)) = Some (VInt (g_flags b)).
Proof.
  induction bs as [|a t IH]; intros i k b H.
  - destruct k; discriminate H.
  - cbn [gblocks_fields gblock_fields app getf]. destruct k as [|k]; cbn [nth_error] in H.
    + injection H as H. subst a. names. rewrite Nat.add_0_r, Nat.eqb_refl. reflexivity.
    + names. rewrite eqb_add_S. rewrite Nat.add_succ_r. apply (IH (S i) k b H).
Qed.

Lemma setf_gblocks_flags : forall bs i k b v, nth_error bs k = Some b ->
  setf (gblocks_fields i bs) (fname "flags" (i + k)) (VInt v) = gblocks_fields i (set_flags k v bs).
Proof.
  induction bs as [|a t IH]; intros i k b v H.
  - destruct k; discriminate H.
  - cbn [gblocks_fields gblock_fields app setf]. destruct k as [|k]; cbn [nth_error] in H.
    + names. rewrite Nat.add_0_r, Nat.eqb_refl. reflexivity.
    + names. rewrite eqb_add_S. replace (i + S k)%nat with (S i + k)%nat by lia.
      rewrite (IH (S i) k b v H). reflexivity.
Qed.

Lemma get_int_gnss_count : forall ver hw use_ bs,
  get_int (gnss_fields ver hw use_ bs) "numConfigBlocks" = Ok (Z.of_nat (List.length bs)).
Proof. intros. reflexivity. Qed.

Lemma getf_gnss_block : forall ver hw use_ bs base j,
  String.eqb "msgVer" (fname base j) = false ->
  String.eqb "numTrkChHw" (fname base j) = false ->
  String.eqb "numTrkChUse" (fname base j) = false ->
  String.eqb "numConfigBlocks" (fname base j) = false ->
  getf (gnss_fields ver hw use_ bs) (fname base j) = getf (gblocks_fields 0 bs) (fname base j).
Proof.
  intros ver hw use_ bs base j H1 H2 H3 H4.
  unfold gnss_fields. cbn [app getf]. rewrite H1, H2, H3, H4. reflexivity.
Qed.

Lemma get_int_gnss_id : forall ver hw use_ bs k b, nth_error bs k = Some b ->
  get_int (gnss_fields ver hw use_ bs) (fname "gnssId" k) = Ok (g_id b).
Proof.
  intros ver hw use_ bs k b H. unfold get_int.
  rewrite getf_gnss_block by reflexivity.
  pose proof (getf_gblocks_id bs 0 k b H) as G. cbn [Nat.add] in G. rewrite G. reflexivity.
Qed.

Lemma get_int_gnss_flags : forall ver hw use_ bs k b, nth_error bs k = Some b ->
  get_int (gnss_fields ver hw use_ bs) (fname "flags" k) = Ok (g_flags b).
Proof.
  intros ver hw use_ bs k b H. unfold get_int.
  rewrite getf_gnss_block by reflexivity.
  pose proof (getf_gblocks_flags bs 0 k b H) as G. cbn [Nat.add] in G. rewrite G. reflexivity.
Qed.

Lemma set_flags_length : forall bs k v, List.length (set_flags k v bs) = List.length bs.
Proof.
  induction bs as [|a t IH]; intros k v; cbn [set_flags].
  - reflexivity.
  - destruct k; cbn [List.length]; [reflexivity | rewrite IH; reflexivity].
Qed.

Lemma setf_gnss_flags : forall ver hw use_ bs k b v, nth_error bs k = Some b ->
  setf (gnss_fields ver hw use_ bs) (fname "flags" k) (VInt v)
  = gnss_fields ver hw use_ (set_flags k v bs).
Proof.
  intros ver hw use_ bs k b v H. unfold gnss_fields. cbn [app setf]. names.
  pose proof (setf_gblocks_flags bs 0 k b v H) as G. cbn [Nat.add] in G.
  rewrite G, set_flags_length. reflexivity.
Qed.

(* find_from walks the blocks in order *)
Lemma find_from_spec : forall rest fs sys i,
  (forall k b, nth_error rest k = Some b -> get_int fs (fname "gnssId" (i + k)) = Ok (g_id b)) ->
  find_from fs sys i (List.length rest) = Ok (option_map (fun k => (i + k)%nat) (first_idx sys rest)).
Proof.
  induction rest as [|a t IH]; intros fs sys i H; cbn [List.length find_from first_idx].
  - reflexivity.
  - pose proof (H O a eq_refl) as H0. rewrite Nat.add_0_r in H0. rewrite H0. cbn [bind].
    destruct (g_id a =? sys) eqn:E.
    + cbn [option_map]. rewrite Nat.add_0_r. reflexivity.
    + rewrite (IH fs sys (S i)).
      * destruct (first_idx sys t) as [k|]; cbn [option_map]; [|reflexivity].
        rewrite Nat.add_succ_r. reflexivity.
      * intros k b Hk. replace (S i + k)%nat with (i + S k)%nat by lia. apply H. exact Hk.
Qed.

Lemma find_entry_gnss : forall ver hw use_ bs sys, (0 <= sys <= 7)%Z ->
  find_entry (gnss_fields ver hw use_ bs) sys = Ok (first_idx sys bs).
Proof.
  intros ver hw use_ bs sys Hs. unfold find_entry.
  assert (E : negb ((0 <=? sys) && (sys <=? 7)) = false).
  { apply negb_false_iff, andb_true_iff. split; apply Z.leb_le; lia. }
  rewrite E, get_int_gnss_count. cbn [bind]. rewrite Nat2Z.id.
  rewrite (find_from_spec bs _ sys O).
  - destruct (first_idx sys bs); reflexivity.
  - intros k b Hk. apply (get_int_gnss_id ver hw use_ bs k b Hk).
Qed.

Theorem enable_refines : forall on ver hw use_ bs sys,
  (0 <= sys <= 7)%Z ->
  set_enable_bit on (gnss_fields ver hw use_ bs) sys = Ok (gnss_fields ver hw use_ (spec_enable on sys bs)).
Proof.
  intros on ver hw use_ bs sys Hs. unfold set_enable_bit.
  rewrite (find_entry_gnss ver hw use_ bs sys Hs). cbn [bind].
  pose proof (spec_enable_idx on sys bs) as Hspec.
  destruct (first_idx sys bs) as [k|].
  - destruct Hspec as [b [Hn Hspec]].
    rewrite (get_int_gnss_flags ver hw use_ bs k b Hn). cbn [bind].
    rewrite (setf_gnss_flags ver hw use_ bs k b _ Hn), Hspec. reflexivity.
  - rewrite Hspec. reflexivity.
Qed.

Theorem enable_rejects : forall on fs sys, (sys < 0 \/ 7 < sys)%Z ->
  set_enable_bit on fs sys = Raise AssertionError.
Proof.
  intros on fs sys Hs. unfold set_enable_bit, find_entry.
  assert (E : negb ((0 <=? sys) && (sys <=? 7)) = true).
  { apply negb_true_iff, andb_false_iff.
    destruct Hs as [Hs|Hs]; [left | right]; apply Z.leb_gt; lia. }
  rewrite E. reflexivity.
Qed.

(* ---- presets ---------------------------------------------------------------------------- *)
Lemma apply_all_refines : forall on l ver hw use_ bs,
  Forall (fun s => 0 <= s <= 7) l ->
  apply_all (set_enable_bit on) (gnss_fields ver hw use_ bs) l
  = Ok (gnss_fields ver hw use_ (fold_left (fun b s => spec_enable on s b) l bs)).
Proof.
  induction l as [|s t IH]; intros ver hw use_ bs H; cbn [apply_all fold_left].
  - reflexivity.
  - inversion H as [|s' t' Hs Ht]; subst.
    rewrite (enable_refines on ver hw use_ bs s Hs). cbn [bind]. apply IH. exact Ht.
Qed.

Ltac sys_range :=
  repeat (apply Forall_cons; [unfold GPS, SBAS, Galileo, BeiDou, IMES, QZSS, GLONASS, IRNSS; lia|]);
  apply Forall_nil.

Theorem gps_glonass_refines : forall ver hw use_ bs,
  gps_glonass (gnss_fields ver hw use_ bs) = Ok (gnss_fields ver hw use_ (spec_gps_glonass bs)).
Proof.
  intros ver hw use_ bs. unfold gps_glonass, spec_gps_glonass, enable_gnss, disable_gnss.
  rewrite apply_all_refines by sys_range. cbn [bind].
  rewrite apply_all_refines by sys_range. reflexivity.
Qed.

Theorem gps_galileo_beidou_refines : forall ver hw use_ bs,
  gps_galileo_beidou (gnss_fields ver hw use_ bs) = Ok (gnss_fields ver hw use_ (spec_gps_galileo_beidou bs)).
Proof.
  intros ver hw use_ bs. unfold gps_galileo_beidou, spec_gps_galileo_beidou, enable_gnss, disable_gnss.
  rewrite apply_all_refines by sys_range. cbn [bind].
  rewrite apply_all_refines by sys_range. reflexivity.
Qed.

(* ======================================================================================= *)
(* Lever arms                                                                               *)

Lemma get_int_larms : forall l i k a, nth_error l k = Some a ->
  get_int (larms_fields i l) (fname "leverArmType" (i + k)) = Ok (l_type a)
  /\ get_int (larms_fields i l) (fname "leverArmX" (i + k)) = Ok (l_x a)
  /\ get_int (larms_fields i l) (fname "leverArmY" (i + k)) = Ok (l_y a)
  /\ get_int (larms_fields i l) (fname "leverArmZ" (i + k)) = Ok (l_z a).
Proof.
  induction l as [|c t IH]; intros i k a H.
  - destruct k; discriminate H.
  - unfold get_int. cbn [larms_fields larm_fields app getf].
    destruct k as [|k]; cbn [nth_error] in H.
    + injection H as H. subst c. names. rewrite Nat.add_0_r, Nat.eqb_refl. repeat split.
    + names. rewrite eqb_add_S. rewrite Nat.add_succ_r. apply (IH (S i) k a H).
Qed.

Lemma get_int_esfla : forall ver l base j,
  String.eqb "version" (fname base j) = false ->
  String.eqb "numConfigs" (fname base j) = false ->
  String.eqb "res1" (fname base j) = false ->
  get_int (esfla_fields ver l) (fname base j) = get_int (larms_fields 0 l) (fname base j).
Proof.
  intros ver l base j H1 H2 H3. unfold get_int, esfla_fields. cbn [app getf].
  rewrite H1, H2, H3. reflexivity.
Qed.

Lemma lever_from_spec : forall rest fs t i,
  (forall k a, nth_error rest k = Some a ->
     get_int fs (fname "leverArmType" (i + k)) = Ok (l_type a)
     /\ get_int fs (fname "leverArmX" (i + k)) = Ok (l_x a)
     /\ get_int fs (fname "leverArmY" (i + k)) = Ok (l_y a)
     /\ get_int fs (fname "leverArmZ" (i + k)) = Ok (l_z a)) ->
  lever_from fs t i (List.length rest) = Ok (spec_lever t rest).
Proof.
  induction rest as [|a r IH]; intros fs t i H; cbn [List.length lever_from spec_lever].
  - reflexivity.
  - destruct (H O a eq_refl) as [Ht [Hx [Hy Hz]]]. rewrite Nat.add_0_r in Ht, Hx, Hy, Hz.
    rewrite Ht. cbn [bind]. destruct (l_type a =? t) eqn:E.
    + rewrite Hx, Hy, Hz. reflexivity.
    + apply IH. intros k b Hk. replace (S i + k)%nat with (i + S k)%nat by lia. apply H. exact Hk.
Qed.

Theorem lever_first : forall ver l t,
  lever_arm (esfla_fields ver l) t = Ok (spec_lever t l).
Proof.
  intros ver l t. unfold lever_arm.
  assert (En : get_int (esfla_fields ver l) "numConfigs" = Ok (Z.of_nat (List.length l))) by reflexivity.
  rewrite En. cbn [bind]. rewrite Nat2Z.id.
  apply lever_from_spec. intros k a Hk.
  rewrite !get_int_esfla by reflexivity.
  apply (get_int_larms l O k a Hk).
Qed.
