(* FieldsP.v — proofs about the Fields model (types.py): decoding follows the layout offsets,
   encoding inverts decoding, edits are local. Used by props/C07gen.v and props/C08.v. *)
From Coq Require Import Lia ZifyBool ZifyN ZifyNat.
From Ubx Require Import Fields Base FieldsSpec.
Ltac Zify.zify_post_hook ::= Z.to_euclidean_division_equations.
Open Scope N_scope.

(* ------------------------------------------------------------------------- *)
(* list helpers                                                               *)
(* ------------------------------------------------------------------------- *)
Lemma skipn_add : forall (A : Type) (a b : nat) (l : list A),
  skipn (a + b) l = skipn b (skipn a l).
Proof.
  intros A a. induction a as [|a IH]; intros b l.
  - reflexivity.
  - destruct l as [|x l].
    + cbn [Nat.add skipn]. destruct b; reflexivity.
    + cbn [Nat.add skipn]. apply IH.
Qed.

Lemma firstn_app_exact : forall (A : Type) (a b : list A) (n : nat),
  List.length a = n -> firstn n (a ++ b) = a.
Proof.
  intros A a b n Hn. subst n. rewrite firstn_app, Nat.sub_diag.
  cbn [firstn]. rewrite firstn_all, app_nil_r. reflexivity.
Qed.

Lemma skipn_app_exact : forall (A : Type) (a b : list A) (n : nat),
  List.length a = n -> skipn n (a ++ b) = b.
Proof.
  intros A a b n Hn. subst n. rewrite skipn_app, Nat.sub_diag, skipn_all.
  reflexivity.
Qed.

Lemma firstn_app_add : forall (A : Type) (a b : list A) (n k : nat),
  List.length a = n -> firstn (n + k) (a ++ b) = a ++ firstn k b.
Proof.
  intros A a b n k Hn. subst n. rewrite firstn_app.
  rewrite firstn_all2 by lia. f_equal. f_equal. lia.
Qed.

Lemma skipn_app_add : forall (A : Type) (a b : list A) (n k : nat),
  List.length a = n -> skipn (n + k) (a ++ b) = skipn k b.
Proof.
  intros A a b n k Hn. rewrite skipn_add, (skipn_app_exact _ a b n Hn). reflexivity.
Qed.

Lemma all_bytes_firstn : forall n l, all_bytes l = true -> all_bytes (firstn n l) = true.
Proof.
  intros n. induction n as [|n IH]; intros l Hl.
  - reflexivity.
  - destruct l as [|x l]; [reflexivity|].
    cbn [firstn]. unfold all_bytes in *. cbn [forallb] in *.
    apply andb_true_iff in Hl. destruct Hl as [Hx Hl].
    rewrite Hx. cbn [andb]. apply IH. exact Hl.
Qed.

Lemma all_bytes_skipn : forall n l, all_bytes l = true -> all_bytes (skipn n l) = true.
Proof.
  intros n. induction n as [|n IH]; intros l Hl.
  - exact Hl.
  - destruct l as [|x l]; [reflexivity|].
    cbn [skipn]. unfold all_bytes in *. cbn [forallb] in Hl.
    apply andb_true_iff in Hl. destruct Hl as [_ Hl]. apply IH. exact Hl.
Qed.

Lemma list_eqb_eq : forall a b, list_eqb a b = true -> a = b.
Proof.
  intros a. induction a as [|x a IH]; intros b H; destruct b as [|y b]; cbn [list_eqb] in H;
    try discriminate; try reflexivity.
  apply andb_true_iff in H. destruct H as [Hxy Hab].
  apply N.eqb_eq in Hxy. subst y. f_equal. apply IH. exact Hab.
Qed.

(* ------------------------------------------------------------------------- *)
(* pow256 and the little-endian codec                                         *)
(* ------------------------------------------------------------------------- *)
Lemma pow256_0 : pow256 0 = 1.
Proof. reflexivity. Qed.

Lemma pow256_S : forall w, pow256 (S w) = 256 * pow256 w.
Proof.
  intros w. unfold pow256.
  replace (8 * N.of_nat (S w)) with (8 + 8 * N.of_nat w) by lia.
  rewrite N.pow_add_r. reflexivity.
Qed.

Lemma pow256_pos : forall w, 0 < pow256 w.
Proof.
  intros w. induction w as [|w IH].
  - rewrite pow256_0. lia.
  - rewrite pow256_S. lia.
Qed.

Lemma pow256_even : forall w, w <> 0%nat -> exists q, 0 < q /\ pow256 w = 256 * q.
Proof.
  intros w Hw. destruct w as [|w]; [contradiction|].
  exists (pow256 w). split; [apply pow256_pos | apply pow256_S].
Qed.

Local Opaque pow256.

Lemma le_enc_length : forall w v, List.length (le_enc w v) = w.
Proof.
  intros w. induction w as [|w IH]; intros v.
  - reflexivity.
  - cbn [le_enc List.length]. rewrite IH. reflexivity.
Qed.

Lemma le_enc_bytes : forall w v, all_bytes (le_enc w v) = true.
Proof.
  intros w. induction w as [|w IH]; intros v.
  - reflexivity.
  - cbn [le_enc]. unfold all_bytes in *. cbn [forallb]. rewrite IH.
    unfold is_byte. rewrite andb_true_r. apply N.ltb_lt. apply N.mod_lt. lia.
Qed.

Lemma le_dec_bound : forall bs, all_bytes bs = true -> le_dec bs < pow256 (List.length bs).
Proof.
  intros bs. induction bs as [|b t IH]; intros Hb.
  - cbn [le_dec List.length]. rewrite pow256_0. lia.
  - unfold all_bytes in *. cbn [forallb] in Hb.
    apply andb_true_iff in Hb. destruct Hb as [Hb Ht].
    unfold is_byte in Hb. apply N.ltb_lt in Hb.
    specialize (IH Ht). cbn [le_dec List.length]. rewrite pow256_S. lia.
Qed.

Lemma le_enc_dec : forall bs, all_bytes bs = true -> le_enc (List.length bs) (le_dec bs) = bs.
Proof.
  intros bs. induction bs as [|b t IH]; intros Hb.
  - reflexivity.
  - unfold all_bytes in *. cbn [forallb] in Hb.
    apply andb_true_iff in Hb. destruct Hb as [Hb Ht].
    unfold is_byte in Hb. apply N.ltb_lt in Hb.
    cbn [le_dec List.length le_enc].
    replace ((b + 256 * le_dec t) mod 256) with b by lia.
    replace ((b + 256 * le_dec t) / 256) with (le_dec t) by lia.
    rewrite (IH Ht). reflexivity.
Qed.

Lemma le_dec_enc : forall w v, le_dec (le_enc w v) = v mod pow256 w.
Proof.
  intros w. induction w as [|w IH]; intros v.
  - cbn [le_enc le_dec]. rewrite pow256_0. rewrite N.mod_1_r. reflexivity.
  - cbn [le_enc le_dec]. rewrite IH, pow256_S.
    pose proof (pow256_pos w) as Hp.
    rewrite N.mod_mul_r by lia. reflexivity.
Qed.

Lemma le_dec_enc_small : forall w v, v < pow256 w -> le_dec (le_enc w v) = v.
Proof. intros w v Hv. rewrite le_dec_enc. apply N.mod_small. exact Hv. Qed.

(* ------------------------------------------------------------------------- *)
(* integer codecs                                                             *)
(* ------------------------------------------------------------------------- *)
Lemma unpack_int_spec : forall signed w bs, List.length bs = w ->
  unpack_int signed w bs
  = Ok (if signed && (pow256 w / 2 <=? le_dec bs)
        then (Z.of_N (le_dec bs) - Z.of_N (pow256 w))%Z else Z.of_N (le_dec bs)).
Proof.
  intros signed w bs Hl. unfold unpack_int. rewrite Hl, Nat.eqb_refl. cbn [negb].
  destruct (signed && (pow256 w / 2 <=? le_dec bs)); reflexivity.
Qed.

Lemma unpack_int_len : forall signed w bs z, unpack_int signed w bs = Ok z -> List.length bs = w.
Proof.
  intros signed w bs z H. unfold unpack_int in H.
  destruct (Nat.eqb (List.length bs) w) eqn:E; cbn [negb] in H; [|discriminate].
  apply Nat.eqb_eq. exact E.
Qed.

Lemma pack_int_unsigned : forall w z, (0 <= z < Z.of_N (pow256 w))%Z ->
  pack_int false w (VInt z) = Ok (le_enc w (Z.to_N z)).
Proof.
  intros w z Hz. unfold pack_int. cbv zeta.
  destruct ((0 <=? z)%Z && (z <? Z.of_N (pow256 w))%Z) eqn:E; [|lia].
  rewrite Z.mod_small by lia. reflexivity.
Qed.

Lemma pack_int_signed : forall w z,
  (- (Z.of_N (pow256 w) / 2) <= z < Z.of_N (pow256 w) / 2)%Z ->
  pack_int true w (VInt z) = Ok (le_enc w (Z.to_N (z mod Z.of_N (pow256 w)))).
Proof.
  intros w z Hz. unfold pack_int. cbv zeta.
  destruct ((- (Z.of_N (pow256 w) / 2) <=? z)%Z && (z <? Z.of_N (pow256 w) / 2)%Z) eqn:E; [|lia].
  reflexivity.
Qed.

Lemma signed_mod : forall w z, w <> 0%nat ->
  (- (Z.of_N (pow256 w) / 2) <= z < Z.of_N (pow256 w) / 2)%Z ->
  Z.to_N (z mod Z.of_N (pow256 w)) < pow256 w
  /\ (if (pow256 w / 2 <=? Z.to_N (z mod Z.of_N (pow256 w)))%N
      then Z.of_N (Z.to_N (z mod Z.of_N (pow256 w))) - Z.of_N (pow256 w)
      else Z.of_N (Z.to_N (z mod Z.of_N (pow256 w))))%Z = z.
Proof.
  intros w z Hw Hz. destruct (pow256_even w Hw) as [q [Hq HP]].
  remember (pow256 w) as P eqn:EP. clear EP.
  destruct (Z.ltb z 0) eqn:Hneg.
  - assert (Hm : (z mod Z.of_N P = z + Z.of_N P)%Z).
    { rewrite <- (Z_mod_plus_full z 1 (Z.of_N P)). rewrite Z.mul_1_l. apply Z.mod_small. lia. }
    rewrite Hm. split; [lia|].
    destruct (P / 2 <=? Z.to_N (z + Z.of_N P)) eqn:E; lia.
  - assert (Hm : (z mod Z.of_N P = z)%Z) by (apply Z.mod_small; lia).
    rewrite Hm. split; [lia|].
    destruct (P / 2 <=? Z.to_N z) eqn:E; lia.
Qed.

Lemma int_roundtrip_gen : forall (signed : bool) w z, w <> 0%nat ->
  (if signed then (- (Z.of_N (pow256 w) / 2) <= z < Z.of_N (pow256 w) / 2)%Z
   else (0 <= z < Z.of_N (pow256 w))%Z) ->
  exists bs, pack_int signed w (VInt z) = Ok bs /\ List.length bs = w /\ all_bytes bs = true
             /\ unpack_int signed w bs = Ok z.
Proof.
  intros signed w z Hw Hz. destruct signed.
  - exists (le_enc w (Z.to_N (z mod Z.of_N (pow256 w)))).
    destruct (signed_mod w z Hw Hz) as [Hlt Hval].
    split; [apply pack_int_signed; exact Hz|].
    split; [apply le_enc_length|]. split; [apply le_enc_bytes|].
    rewrite unpack_int_spec by apply le_enc_length.
    rewrite le_dec_enc_small by exact Hlt. cbn [andb].
    f_equal.
    destruct (pow256 w / 2 <=? Z.to_N (z mod Z.of_N (pow256 w))); exact Hval.
  - exists (le_enc w (Z.to_N z)).
    split; [apply pack_int_unsigned; exact Hz|].
    split; [apply le_enc_length|]. split; [apply le_enc_bytes|].
    rewrite unpack_int_spec by apply le_enc_length. cbn [andb].
    rewrite le_dec_enc_small by lia. f_equal. lia.
Qed.

Lemma int_roundtrip : forall (signed : bool) w z,
  (w = 1 \/ w = 2 \/ w = 4 \/ w = 8)%nat ->
  (if signed then (- (Z.of_N (pow256 w) / 2) <= z < Z.of_N (pow256 w) / 2)%Z
   else (0 <= z < Z.of_N (pow256 w))%Z) ->
  exists bs, pack_int signed w (VInt z) = Ok bs /\ List.length bs = w /\ all_bytes bs = true
             /\ unpack_int signed w bs = Ok z.
Proof.
  intros signed w z Hw Hz. apply int_roundtrip_gen; [lia | exact Hz].
Qed.

(* ------------------------------------------------------------------------- *)
(* sequential reading of the spec (offset-free), equivalent to the offsets    *)
(* ------------------------------------------------------------------------- *)
Fixpoint sdec (l : layout) (data : bytes) : fields :=
  match l with
  | [] => []
  | (n, t) :: r => (n, t, spec_value t (firstn (width t) data)) :: sdec r (skipn (width t) data)
  end.

Definition item_valid (t : fty) (data : bytes) : bool :=
  match t with TCh n => utf8_valid (firstn n data) | _ => true end.

Fixpoint sch (l : layout) (data : bytes) : bool :=
  match l with
  | [] => true
  | (_, t) :: r => item_valid t data && sch r (skipn (width t) data)
  end.

Lemma spec_decode_seq : forall l off data, spec_decode l off data = sdec l (skipn off data).
Proof.
  intros l. induction l as [|[n t] r IH]; intros off data.
  - reflexivity.
  - cbn [spec_decode sdec]. unfold slice. rewrite IH, skipn_add. reflexivity.
Qed.

Lemma ch_valid_seq : forall l off data, ch_valid l off data = sch l (skipn off data).
Proof.
  intros l. induction l as [|[n t] r IH]; intros off data.
  - reflexivity.
  - cbn [ch_valid sch]. rewrite IH, skipn_add. unfold item_valid, slice. reflexivity.
Qed.

Lemma size_app : forall a b, size (a ++ b) = (size a + size b)%nat.
Proof.
  intros a b. induction a as [|[n t] a IH].
  - reflexivity.
  - cbn [app]. unfold size in *. cbn [fold_right snd]. rewrite IH. lia.
Qed.

Lemma size_cons : forall n t r, size ((n, t) :: r) = (width t + size r)%nat.
Proof. reflexivity. Qed.

Lemma sdec_app : forall a b data, sdec (a ++ b) data = sdec a data ++ sdec b (skipn (size a) data).
Proof.
  intros a. induction a as [|[n t] a IH]; intros b data.
  - reflexivity.
  - cbn [app sdec]. rewrite IH, size_cons, skipn_add. reflexivity.
Qed.

Lemma sch_app : forall a b data, sch (a ++ b) data = sch a data && sch b (skipn (size a) data).
Proof.
  intros a. induction a as [|[n t] a IH]; intros b data.
  - reflexivity.
  - cbn [app sch]. rewrite IH, size_cons, skipn_add, andb_assoc. reflexivity.
Qed.

Lemma layout_of_sdec : forall l data, layout_of (sdec l data) = l.
Proof.
  intros l. induction l as [|[n t] r IH]; intros data.
  - reflexivity.
  - cbn [sdec layout_of map fst snd]. f_equal. apply IH.
Qed.

Lemma layout_of_fresh : forall l, layout_of (fresh_fields l) = l.
Proof.
  intros l. induction l as [|[n t] r IH].
  - reflexivity.
  - unfold layout_of, fresh_fields in *. cbn [map fst snd]. f_equal. exact IH.
Qed.

Lemma layout_of_app : forall a b, layout_of (a ++ b) = layout_of a ++ layout_of b.
Proof. intros a b. unfold layout_of. apply map_app. Qed.

(* Padding fields keep their previous value: the only way the old field list matters *)
Definition pad0_item (x : string * fty * fval) : bool :=
  match snd (fst x), snd x with
  | TPad _, VInt 0 => true
  | TPad _, _ => false
  | _, _ => true
  end.
Definition pad0 (fs : fields) : bool := forallb pad0_item fs.

Lemma pad0_fresh : forall l, pad0 (fresh_fields l) = true.
Proof.
  intros l. induction l as [|[n t] r IH].
  - reflexivity.
  - unfold pad0, fresh_fields in *. cbn [map forallb]. rewrite IH, andb_true_r.
    destruct t; reflexivity.
Qed.

Lemma pad0_sdec : forall l data, pad0 (sdec l data) = true.
Proof.
  intros l. induction l as [|[n t] r IH]; intros data.
  - reflexivity.
  - cbn [sdec]. unfold pad0 in *. cbn [forallb]. rewrite IH, andb_true_r.
    unfold pad0_item. cbn [fst snd]. destruct t; reflexivity.
Qed.

(* ------------------------------------------------------------------------- *)
(* unpack_item / unpack_fields follow the spec                                *)
(* ------------------------------------------------------------------------- *)
Lemma unpack_item_spec : forall t data,
  (width t <= List.length data)%nat -> item_valid t data = true ->
  unpack_item t data
  = Ok (match t with TPad _ => None | _ => Some (spec_value t (firstn (width t) data)) end).
Proof.
  intros t data Hlen Hv. destruct t as [w|w|w|n|n]; cbn [width] in Hlen;
    cbn [unpack_item width spec_value].
  - rewrite unpack_int_spec by (apply firstn_length_le; exact Hlen). reflexivity.
  - rewrite unpack_int_spec by (apply firstn_length_le; exact Hlen). cbn [andb bind].
    destruct (pow256 w / 2 <=? le_dec (firstn w data)); reflexivity.
  - rewrite unpack_int_spec by (apply firstn_length_le; exact Hlen). reflexivity.
  - reflexivity.
  - destruct (Nat.ltb (List.length data) n) eqn:E; [apply Nat.ltb_lt in E; lia|].
    cbn [item_valid] in Hv. rewrite Hv. reflexivity.
Qed.

Lemma unpack_fields_spec : forall fs data,
  pad0 fs = true -> (size (layout_of fs) <= List.length data)%nat ->
  sch (layout_of fs) data = true ->
  unpack_fields fs data = Ok (sdec (layout_of fs) data, skipn (size (layout_of fs)) data).
Proof.
  intros fs. induction fs as [|[[n t] v] rest IH]; intros data Hp Hlen Hv.
  - reflexivity.
  - unfold pad0 in Hp. cbn [forallb] in Hp. apply andb_true_iff in Hp. destruct Hp as [Hp0 Hp].
    change (layout_of ((n, t, v) :: rest)) with ((n, t) :: layout_of rest) in *.
    rewrite size_cons in *. cbn [sch] in Hv. apply andb_true_iff in Hv. destruct Hv as [Hv0 Hv].
    cbn [unpack_fields sdec].
    rewrite unpack_item_spec by (try exact Hv0; lia). cbn [bind].
    rewrite IH; [| exact Hp | rewrite skipn_length; lia | exact Hv].
    cbn [bind]. rewrite skipn_add. f_equal. f_equal. f_equal.
    unfold pad0_item in Hp0. cbn [fst snd] in Hp0.
    destruct t as [w|w|w|k|k]; try reflexivity.
    cbn [spec_value]. destruct v as [z|s]; [|discriminate].
    destruct z; try discriminate. reflexivity.
Qed.

Lemma unpack_fresh_spec : forall l data,
  (size l <= List.length data)%nat -> sch l data = true ->
  unpack_fields (fresh_fields l) data = Ok (sdec l data, skipn (size l) data).
Proof.
  intros l data Hlen Hv.
  rewrite unpack_fields_spec; rewrite ?layout_of_fresh; auto using pad0_fresh.
Qed.

Lemma decode_fixed : forall l data,
  widths_ok l = true -> (size l <= List.length data)%nat -> ch_valid l 0 data = true ->
  decode (KFixed l) data = Ok (spec_decode l 0 data).
Proof.
  intros l data _ Hlen Hv. rewrite ch_valid_seq in Hv. rewrite spec_decode_seq.
  cbn [skipn] in *. unfold decode. rewrite unpack_fresh_spec by assumption. reflexivity.
Qed.

Lemma size_suffixed : forall blk i, size (suffixed blk i) = size blk.
Proof.
  intros blk i. unfold suffixed, size. induction blk as [|[n t] blk IHb]; [reflexivity|].
  cbn [map fold_right snd]. rewrite IHb. reflexivity.
Qed.

Lemma size_blocks_from : forall blk c s, size (blocks_from blk s c) = (c * size blk)%nat.
Proof.
  intros blk c. induction c as [|c IH]; intros s.
  - reflexivity.
  - cbn [blocks_from]. rewrite size_app, IH, size_suffixed. reflexivity.
Qed.

Lemma size_counted : forall hdr blk c, size (counted_layout hdr blk c) = (size hdr + c * size blk)%nat.
Proof.
  intros hdr blk c. unfold counted_layout, blocks. rewrite size_app, size_blocks_from. reflexivity.
Qed.

Lemma decode_counted : forall hdr cnt maxc blk data c,
  widths_ok hdr = true -> widths_ok blk = true ->
  getf (spec_decode hdr 0 data) cnt = Some (VInt (Z.of_nat c)) ->
  match maxc with Some m => (Z.of_nat c <= Z.of_N m)%Z | None => True end ->
  (size (counted_layout hdr blk c) <= List.length data)%nat ->
  ch_valid (counted_layout hdr blk c) 0 data = true ->
  decode (KCounted hdr cnt maxc blk) data = Ok (spec_decode (counted_layout hdr blk c) 0 data).
Proof.
  intros hdr cnt maxc blk data c _ _ Hget Hmax Hlen Hv.
  rewrite ch_valid_seq in Hv. rewrite spec_decode_seq in *. cbn [skipn] in *.
  unfold counted_layout in *. rewrite size_app in Hlen. rewrite sch_app in Hv.
  apply andb_true_iff in Hv. destruct Hv as [Hvh Hvb].
  unfold decode. rewrite unpack_fresh_spec by (try exact Hvh; lia). cbn [bind].
  rewrite Hget.
  assert (Hm : match maxc with Some m => (Z.of_N m <? Z.of_nat c)%Z | None => false end = false).
  { destruct maxc as [m|]; [lia | reflexivity]. }
  rewrite Hm, Nat2Z.id.
  rewrite unpack_fields_spec.
  - rewrite layout_of_app, layout_of_sdec, layout_of_fresh. reflexivity.
  - unfold pad0. rewrite forallb_app. fold (pad0 (sdec hdr data)).
    fold (pad0 (fresh_fields (blocks blk c))). rewrite pad0_sdec, pad0_fresh. reflexivity.
  - rewrite layout_of_app, layout_of_sdec, layout_of_fresh, size_app. exact Hlen.
  - rewrite layout_of_app, layout_of_sdec, layout_of_fresh, sch_app, Hvh, Hvb. reflexivity.
Qed.

(* ------------------------------------------------------------------------- *)
(* offsets of repeated blocks and of MON-VER                                  *)
(* ------------------------------------------------------------------------- *)
Lemma layout_offsets_app : forall a b off,
  layout_offsets (a ++ b) off = layout_offsets a off ++ layout_offsets b (off + size a).
Proof.
  intros a. induction a as [|[n t] a IH]; intros b off.
  - cbn [app layout_offsets size fold_right]. rewrite Nat.add_0_r. reflexivity.
  - cbn [app layout_offsets]. rewrite IH, size_cons, Nat.add_assoc. reflexivity.
Qed.

Lemma blocks_from_offsets : forall blk c s off,
  layout_offsets (blocks_from blk s c) off
  = concat (map (fun j => layout_offsets (suffixed blk (s + j)) (off + j * size blk)) (seq 0 c)).
Proof.
  intros blk c. induction c as [|c IH]; intros s off.
  - reflexivity.
  - cbn [blocks_from]. rewrite layout_offsets_app, size_suffixed, IH.
    cbn [seq map concat]. rewrite <- seq_shift, map_map.
    rewrite Nat.add_0_r. cbn [Nat.mul]. rewrite Nat.add_0_r. f_equal. f_equal.
    apply map_ext. intros j. f_equal; [f_equal|]; lia.
Qed.

Lemma blocks_offsets : forall blk c off,
  layout_offsets (blocks blk c) off
  = concat (map (fun i => layout_offsets (suffixed blk i) (off + i * size blk)) (seq 0 c)).
Proof.
  intros blk c off. unfold blocks. rewrite blocks_from_offsets. reflexivity.
Qed.

Lemma ext_offsets : forall (g : nat -> string) n s,
  layout_offsets (map (fun i => (g i, TCh 30)) (seq s n)) (40 + 30 * s)
  = map (fun i => (g i, 40 + 30 * i, 30, KCh)%nat) (seq s n).
Proof.
  intros g n. induction n as [|n IH]; intros s.
  - reflexivity.
  - cbn [seq map layout_offsets width kind_of]. f_equal.
    replace (40 + 30 * s + 30)%nat with (40 + 30 * S s)%nat by lia. apply IH.
Qed.

Lemma monver_offsets : forall len,
  layout_offsets (monver_layout len) 0
  = [("swVersion"%string, 0, 30, KCh); ("hwVersion"%string, 30, 10, KCh)]%nat
    ++ map (fun i => (append "extension_" (dec i), 40 + 30 * i, 30, KCh)%nat) (seq 0 ((len - 40) / 30)).
Proof.
  intros len. unfold monver_layout. cbn [app layout_offsets width kind_of].
  change (0 + 30 + 10)%nat with (40 + 30 * 0)%nat.
  rewrite (ext_offsets (fun i => append "extension_" (dec i))). reflexivity.
Qed.

Lemma size_ext : forall (g : nat -> string) (l : list nat),
  size (map (fun i => (g i, TCh 30)) l) = (30 * List.length l)%nat.
Proof.
  intros g l. induction l as [|i l IH].
  - reflexivity.
  - cbn [map List.length]. rewrite size_cons, IH. cbn [width]. lia.
Qed.

Lemma size_monver : forall len, (40 <= len)%nat -> (size (monver_layout len) <= len)%nat.
Proof.
  intros len Hlen. unfold monver_layout. cbn [app]. rewrite !size_cons, size_ext, seq_length.
  cbn [width]. pose proof (Nat.mul_div_le (len - 40) 30) as H. lia.
Qed.

Lemma decode_monver : forall data,
  (40 <= List.length data)%nat -> ch_valid (monver_layout (List.length data)) 0 data = true ->
  decode KMonVer data = Ok (spec_decode (monver_layout (List.length data)) 0 data).
Proof.
  intros data Hlen Hv. rewrite ch_valid_seq in Hv. rewrite spec_decode_seq. cbn [skipn] in *.
  unfold decode. rewrite unpack_fresh_spec; [reflexivity | apply size_monver; exact Hlen | exact Hv].
Qed.

Lemma spec_value_le : forall w b0 b1 b2 b3,
  spec_value (TU 4) [b0; b1; b2; b3] = VInt (Z.of_N (b0 + 256 * (b1 + 256 * (b2 + 256 * (b3 + 256 * 0)))))
  /\ spec_value (TU w) [b0] = VInt (Z.of_N (b0 + 256 * 0)).
Proof. intros w b0 b1 b2 b3. split; reflexivity. Qed.

(* ------------------------------------------------------------------------- *)
(* short payloads raise                                                       *)
(* ------------------------------------------------------------------------- *)
Lemma unpack_item_ok_len : forall t data ov,
  match t with TPad _ => False | _ => True end ->
  unpack_item t data = Ok ov -> (width t <= List.length data)%nat.
Proof.
  intros t data ov Hnp H. destruct t as [w|w|w|n|n]; cbn [unpack_item width] in *.
  - destruct (unpack_int false w (firstn w data)) as [z|e] eqn:E; [|discriminate].
    apply unpack_int_len in E. rewrite firstn_length in E. lia.
  - destruct (unpack_int true w (firstn w data)) as [z|e] eqn:E; [|discriminate].
    apply unpack_int_len in E. rewrite firstn_length in E. lia.
  - destruct (unpack_int false w (firstn w data)) as [z|e] eqn:E; [|discriminate].
    apply unpack_int_len in E. rewrite firstn_length in E. lia.
  - contradiction.
  - destruct (Nat.ltb (List.length data) n) eqn:E; [discriminate|].
    apply Nat.ltb_ge in E. exact E.
Qed.

Lemma unpack_short : forall l data,
  (forall n t, In (n, t) l -> match t with TPad _ => False | _ => True end) ->
  (List.length data < size l)%nat ->
  exists e, unpack_fields (fresh_fields l) data = Raise e.
Proof.
  intros l. induction l as [|[n t] r IH]; intros data Hnp Hlen.
  - cbn in Hlen. lia.
  - rewrite size_cons in Hlen.
    change (fresh_fields ((n, t) :: r)) with ((n, t, default_val t) :: fresh_fields r).
    cbn [unpack_fields].
    destruct (unpack_item t data) as [ov|e] eqn:E.
    + apply unpack_item_ok_len in E; [| apply (Hnp n t); left; reflexivity].
      cbn [bind].
      destruct (IH (skipn (width t) data)) as [e He].
      * intros n' t' Hin. apply (Hnp n' t'). right. exact Hin.
      * rewrite skipn_length. lia.
      * rewrite He. cbn [bind]. exists e. reflexivity.
    + cbn [bind]. exists e. reflexivity.
Qed.

Lemma decode_short : forall l data,
  widths_ok l = true -> (List.length data < size l)%nat ->
  (forall n t, In (n, t) l -> match t with TPad _ => False | _ => True end) ->
  exists e, decode (KFixed l) data = Raise e.
Proof.
  intros l data _ Hlen Hnp. destruct (unpack_short l data Hnp Hlen) as [e He].
  exists e. unfold decode. rewrite He. reflexivity.
Qed.

(* ------------------------------------------------------------------------- *)
(* rstrip0 and zero padding                                                   *)
(* ------------------------------------------------------------------------- *)
Lemma zeros_length : forall k, List.length (zeros k) = k.
Proof. intros k. unfold zeros. apply repeat_length. Qed.

Lemma zeros_S : forall k, zeros (S k) = 0 :: zeros k.
Proof. reflexivity. Qed.

Lemma rstrip0_length : forall l, (List.length (rstrip0 l) <= List.length l)%nat.
Proof.
  intros l. induction l as [|b t IH].
  - cbn. lia.
  - cbn [rstrip0]. destruct (rstrip0 t) as [|x t'] eqn:E.
    + destruct (b =? 0); cbn [List.length]; lia.
    + cbn [List.length] in *. lia.
Qed.

Lemma rstrip0_pad : forall l,
  rstrip0 l ++ zeros (List.length l - List.length (rstrip0 l)) = l.
Proof.
  intros l. induction l as [|b t IH].
  - reflexivity.
  - pose proof (rstrip0_length t) as Hl.
    cbn [rstrip0]. destruct (rstrip0 t) as [|x t'] eqn:E.
    + cbn [List.length app] in IH. rewrite Nat.sub_0_r in IH.
      destruct (b =? 0) eqn:Eb.
      * apply N.eqb_eq in Eb. subst b. cbn [List.length app].
        replace (S (List.length t) - 0)%nat with (S (List.length t)) by lia.
        rewrite zeros_S, IH. reflexivity.
      * cbn [List.length app].
        replace (S (List.length t) - 1)%nat with (List.length t) by lia.
        rewrite IH. reflexivity.
    + cbn [List.length] in *.
      replace (S (List.length t) - S (S (List.length t')))%nat
        with (List.length t - S (List.length t'))%nat by lia.
      change ((b :: x :: t') ++ zeros (List.length t - S (List.length t')))
        with (b :: ((x :: t') ++ zeros (List.length t - S (List.length t')))).
      rewrite IH. reflexivity.
Qed.

Lemma rstrip0_zeros : forall k, rstrip0 (zeros k) = [].
Proof.
  intros k. induction k as [|k IH].
  - reflexivity.
  - rewrite zeros_S. cbn [rstrip0]. rewrite IH. reflexivity.
Qed.

Lemma rstrip0_app_zeros : forall s k, rstrip0 s = s -> rstrip0 (s ++ zeros k) = s.
Proof.
  intros s. induction s as [|b t IH]; intros k Hs.
  - cbn [app]. apply rstrip0_zeros.
  - cbn [rstrip0] in Hs. cbn [app rstrip0].
    destruct (rstrip0 t) as [|x t'] eqn:E.
    + destruct (b =? 0) eqn:Eb; [discriminate|].
      injection Hs as Ht. subst t. cbn [app]. rewrite rstrip0_zeros. reflexivity.
    + injection Hs as Ht. rewrite (IH k Ht).
      rewrite <- Ht. reflexivity.
Qed.

(* ------------------------------------------------------------------------- *)
(* UTF-8 validity survives zero padding                                       *)
(* ------------------------------------------------------------------------- *)
Lemma utf8_zeros : forall k j, utf8_valid_fuel (j + k) (zeros k) = true.
Proof.
  intros k. induction k as [|k IH]; intros j.
  - destruct (j + 0)%nat; reflexivity.
  - rewrite zeros_S. replace (j + S k)%nat with (S (j + k)) by lia.
    cbn [utf8_valid_fuel]. change (0 <? 128) with true. cbv iota. apply IH.
Qed.

Lemma utf8_app_zeros : forall f s k,
  utf8_valid_fuel f s = true -> utf8_valid_fuel (f + k) (s ++ zeros k) = true.
Proof.
  intros f. induction f as [|f IH]; intros s k Hs.
  - destruct s as [|b t]; [|discriminate]. apply (utf8_zeros k 0).
  - destruct s as [|b0 t].
    + apply (utf8_zeros k (S f)).
    + cbn [Nat.add app utf8_valid_fuel] in *.
      repeat match goal with
      | |- context [if ?c then _ else _] =>
          match type of Hs with context [if c then _ else _] => idtac end;
          destruct c eqn:?
      end;
      try discriminate;
      try (apply IH; exact Hs);
      destruct t as [|b1 t]; try discriminate;
      try (cbn [app]; apply andb_true_iff in Hs; destruct Hs as [Hc Hs];
           rewrite Hc; cbn [andb]; apply IH; exact Hs);
      destruct t as [|b2 t]; try discriminate;
      try (cbn [app]; apply andb_true_iff in Hs; destruct Hs as [Hc Hs];
           rewrite Hc; cbn [andb]; apply IH; exact Hs);
      destruct t as [|b3 t]; try discriminate;
      try (cbn [app]; apply andb_true_iff in Hs; destruct Hs as [Hc Hs];
           rewrite Hc; cbn [andb]; apply IH; exact Hs).
Qed.

Lemma utf8_valid_pad : forall s k, utf8_valid s = true -> utf8_valid (s ++ zeros k) = true.
Proof.
  intros s k Hs. unfold utf8_valid in *. rewrite app_length, zeros_length.
  apply utf8_app_zeros. exact Hs.
Qed.

(* ------------------------------------------------------------------------- *)
(* packing the decoded values gives back the bytes                            *)
(* ------------------------------------------------------------------------- *)
Definition tw_ok (t : fty) : bool :=
  match t with
  | TU w | TI w | TX w => Nat.eqb w 1 || Nat.eqb w 2 || Nat.eqb w 4
  | _ => true
  end.

Lemma widths_ok_cons : forall n t r, widths_ok ((n, t) :: r) = tw_ok t && widths_ok r.
Proof. reflexivity. Qed.

Lemma pack_spec : forall t bs,
  tw_ok t = true -> List.length bs = width t -> all_bytes bs = true ->
  pack_item t (spec_value t bs) = Ok (match t with TPad n => zeros n | _ => bs end).
Proof.
  intros t bs Hw Hl Hb. pose proof (le_dec_bound bs Hb) as Hbound.
  destruct t as [w|w|w|n|n]; cbn [width tw_ok] in *; cbn [pack_item spec_value].
  - subst w. rewrite pack_int_unsigned by lia. rewrite N2Z.id, le_enc_dec by exact Hb. reflexivity.
  - assert (Hw0 : w <> 0%nat) by lia.
    destruct (pow256_even w Hw0) as [q [Hq HP]]. subst w.
    destruct (pow256 (List.length bs) / 2 <=? le_dec bs) eqn:E.
    + rewrite pack_int_signed by lia.
      replace (Z.of_N (le_dec bs) - Z.of_N (pow256 (List.length bs)))%Z
        with (Z.of_N (le_dec bs) + (-1) * Z.of_N (pow256 (List.length bs)))%Z by lia.
      rewrite Z_mod_plus_full, Z.mod_small by lia.
      rewrite N2Z.id, le_enc_dec by exact Hb. reflexivity.
    + rewrite pack_int_signed by lia. rewrite Z.mod_small by lia.
      rewrite N2Z.id, le_enc_dec by exact Hb. reflexivity.
  - subst w. rewrite pack_int_unsigned by lia. rewrite N2Z.id, le_enc_dec by exact Hb. reflexivity.
  - reflexivity.
  - pose proof (rstrip0_length bs) as Hr.
    destruct (Nat.ltb n (List.length (rstrip0 bs))) eqn:E; [apply Nat.ltb_lt in E; lia|].
    subst n. rewrite rstrip0_pad. reflexivity.
Qed.

Lemma enc_seq : forall l data,
  widths_ok l = true -> (size l <= List.length data)%nat -> all_bytes data = true ->
  pack_fields (sdec l data) = Ok (zero_reserved l data).
Proof.
  intros l. induction l as [|[n t] r IH]; intros data Hw Hlen Hb.
  - reflexivity.
  - rewrite widths_ok_cons in Hw. apply andb_true_iff in Hw. destruct Hw as [Hw0 Hw].
    rewrite size_cons in Hlen. cbn [sdec pack_fields zero_reserved].
    rewrite pack_spec;
      [| exact Hw0 | apply firstn_length_le; lia | apply all_bytes_firstn; exact Hb].
    cbn [bind]. rewrite IH;
      [| exact Hw | rewrite skipn_length; lia | apply all_bytes_skipn; exact Hb].
    cbn [bind]. destruct t; reflexivity.
Qed.

Lemma enc_dec : forall l data,
  widths_ok l = true -> List.length data = size l -> all_bytes data = true -> ch_valid l 0 data = true ->
  encode (spec_decode l 0 data) = Ok (zero_reserved l data).
Proof.
  intros l data Hw Hlen Hb _. rewrite spec_decode_seq. cbn [skipn]. unfold encode.
  apply enc_seq; [exact Hw | lia | exact Hb].
Qed.

Lemma zero_reserved_length : forall l data,
  (size l <= List.length data)%nat -> List.length (zero_reserved l data) = size l.
Proof.
  intros l. induction l as [|[n t] r IH]; intros data Hlen.
  - reflexivity.
  - rewrite size_cons in *. cbn [zero_reserved]. rewrite app_length.
    rewrite IH by (rewrite skipn_length; lia). f_equal.
    destruct t; cbn [width] in *; try (apply firstn_length_le; lia). apply zeros_length.
Qed.

(* ------------------------------------------------------------------------- *)
(* in-range values pack, and unpack to themselves                             *)
(* ------------------------------------------------------------------------- *)
Lemma pack_val_ok : forall t v,
  tw_ok t = true -> val_ok t v = true ->
  exists b, pack_item t v = Ok b /\ List.length b = width t
    /\ (forall rest, unpack_item t (b ++ rest)
                     = Ok (match t with TPad _ => None | _ => Some v end))
    /\ match t with TPad _ => v = VInt 0 | _ => True end.
Proof.
  intros t v Hw Hv.
  destruct t as [w|w|w|n|n]; destruct v as [z|s]; cbn [val_ok tw_ok] in *; try discriminate.
  - destruct (int_roundtrip_gen false w z) as [bs [Hp [Hl [_ Hu]]]]; [lia | lia |].
    exists bs. cbn [pack_item width unpack_item]. split; [exact Hp|]. split; [exact Hl|].
    split; [|exact I]. intros rest. rewrite firstn_app_exact by exact Hl. rewrite Hu. reflexivity.
  - destruct (int_roundtrip_gen true w z) as [bs [Hp [Hl [_ Hu]]]]; [lia | lia |].
    exists bs. cbn [pack_item width unpack_item]. split; [exact Hp|]. split; [exact Hl|].
    split; [|exact I]. intros rest. rewrite firstn_app_exact by exact Hl. rewrite Hu. reflexivity.
  - destruct (int_roundtrip_gen false w z) as [bs [Hp [Hl [_ Hu]]]]; [lia | lia |].
    exists bs. cbn [pack_item width unpack_item]. split; [exact Hp|]. split; [exact Hl|].
    split; [|exact I]. intros rest. rewrite firstn_app_exact by exact Hl. rewrite Hu. reflexivity.
  - exists (zeros n). cbn [pack_item width unpack_item]. split; [reflexivity|].
    split; [apply zeros_length|]. split; [reflexivity|]. f_equal. lia.
  - apply andb_true_iff in Hv. destruct Hv as [Hv Heq].
    apply andb_true_iff in Hv. destruct Hv as [Hv Hbytes].
    apply andb_true_iff in Hv. destruct Hv as [Hlen Hutf].
    apply Nat.leb_le in Hlen. apply list_eqb_eq in Heq.
    exists (s ++ zeros (n - List.length s)). cbn [pack_item width unpack_item].
    assert (Hl : List.length (s ++ zeros (n - List.length s)) = n).
    { rewrite app_length, zeros_length. lia. }
    split.
    { destruct (Nat.ltb n (List.length s)) eqn:E; [apply Nat.ltb_lt in E; lia | reflexivity]. }
    split; [exact Hl|]. split; [|exact I]. intros rest.
    destruct (Nat.ltb (List.length ((s ++ zeros (n - List.length s)) ++ rest)) n) eqn:E.
    { apply Nat.ltb_lt in E. rewrite app_length in E. lia. }
    rewrite firstn_app_exact by exact Hl.
    rewrite utf8_valid_pad by exact Hutf. rewrite rstrip0_app_zeros by exact Heq. reflexivity.
Qed.

Lemma dec_enc_gen : forall fs,
  fields_ok fs = true -> widths_ok (layout_of fs) = true ->
  exists data, pack_fields fs = Ok data /\ List.length data = size (layout_of fs)
    /\ forall rest, unpack_fields (fresh_fields (layout_of fs)) (data ++ rest) = Ok (fs, rest).
Proof.
  intros fs. induction fs as [|[[n t] v] r IH]; intros Hok Hw.
  - exists []. split; [reflexivity|]. split; [reflexivity|]. intros rest. reflexivity.
  - change (layout_of ((n, t, v) :: r)) with ((n, t) :: layout_of r) in *.
    rewrite widths_ok_cons in Hw. apply andb_true_iff in Hw. destruct Hw as [Hw0 Hw].
    unfold fields_ok in Hok. cbn [forallb fst snd] in Hok.
    apply andb_true_iff in Hok. destruct Hok as [Hv Hok].
    destruct (IH Hok Hw) as [dr [Hpr [Hlr Hur]]].
    destruct (pack_val_ok t v Hw0 Hv) as [b [Hpb [Hlb [Hub Hpad]]]].
    exists (b ++ dr). cbn [pack_fields]. rewrite Hpb, Hpr. cbn [bind].
    split; [reflexivity|]. split; [rewrite app_length, size_cons; lia|].
    intros rest.
    change (fresh_fields ((n, t) :: layout_of r))
      with ((n, t, default_val t) :: fresh_fields (layout_of r)).
    cbn [unpack_fields]. rewrite <- app_assoc. rewrite Hub. cbn [bind].
    rewrite skipn_app_exact by exact Hlb. rewrite Hur. cbn [bind].
    destruct t; try reflexivity. rewrite Hpad. reflexivity.
Qed.

Lemma dec_enc : forall fs,
  fields_ok fs = true -> widths_ok (layout_of fs) = true ->
  exists data, encode fs = Ok data /\ List.length data = size (layout_of fs)
               /\ decode (KFixed (layout_of fs)) data = Ok fs.
Proof.
  intros fs Hok Hw. destruct (dec_enc_gen fs Hok Hw) as [data [Hp [Hl Hu]]].
  exists data. split; [exact Hp|]. split; [exact Hl|].
  unfold decode. specialize (Hu []). rewrite app_nil_r in Hu. rewrite Hu. reflexivity.
Qed.

(* ------------------------------------------------------------------------- *)
(* read-modify-write is local                                                 *)
(* ------------------------------------------------------------------------- *)
Lemma field_pos_shift : forall l name off,
  field_pos l name off
  = match field_pos l name 0 with Some (o, w) => Some ((off + o)%nat, w) | None => None end.
Proof.
  intros l name. induction l as [|[n t] r IH]; intros off.
  - reflexivity.
  - cbn [field_pos]. destruct (String.eqb n name).
    + rewrite Nat.add_0_r. reflexivity.
    + rewrite (IH (off + width t)%nat), (IH (0 + width t)%nat).
      destruct (field_pos r name 0) as [[o w]|]; [|reflexivity].
      f_equal. f_equal. lia.
Qed.

Lemma unique_head_notin : forall n (t0 : fty) (r : layout) name (t : fty),
  names_unique (map fst ((n, t0) :: r)) = true ->
  String.eqb n name = true -> In (name, t) r -> False.
Proof.
  intros n t0 r name t Hu En Hin. cbn [map fst names_unique] in Hu.
  apply andb_true_iff in Hu. destruct Hu as [Hu _].
  assert (Hex : existsb (String.eqb n) (map fst r) = true).
  { apply existsb_exists. exists name. split; [|exact En].
    change name with (fst (name, t)). apply in_map. exact Hin. }
  rewrite Hex in Hu. discriminate.
Qed.

Lemma piece_length : forall t data, (width t <= List.length data)%nat ->
  List.length (match t with TPad n => zeros n | _ => firstn (width t) data end) = width t.
Proof.
  intros t data Hlen. destruct t; cbn [width] in *; try (apply firstn_length_le; exact Hlen).
  apply zeros_length.
Qed.

Lemma edit_seq : forall l data name v off w t,
  widths_ok l = true -> (size l <= List.length data)%nat -> all_bytes data = true ->
  names_unique (map fst l) = true ->
  field_pos l name 0 = Some (off, w) -> In (name, t) l -> val_ok t v = true ->
  exists data', pack_fields (setf (sdec l data) name v) = Ok data'
    /\ List.length data' = size l
    /\ firstn off data' = firstn off (zero_reserved l data)
    /\ skipn (off + w) data' = skipn (off + w) (zero_reserved l data).
Proof.
  intros l. induction l as [|[n t0] r IH]; intros data name v off w t Hw Hlen Hb Hu Hpos Hin Hv.
  - discriminate.
  - rewrite widths_ok_cons in Hw. apply andb_true_iff in Hw. destruct Hw as [Hw0 Hw].
    rewrite size_cons in *.
    assert (Hpl := piece_length t0 data ltac:(lia)).
    cbn [field_pos] in Hpos. cbn [sdec setf zero_reserved].
    destruct (String.eqb n name) eqn:En.
    + injection Hpos as Hoff Hwid. subst off w.
      assert (Ht : t0 = t).
      { destruct Hin as [Heq|Hin']; [injection Heq as _ Heq; exact Heq|].
        exfalso. exact (unique_head_notin n t0 r name t Hu En Hin'). }
      subst t0.
      destruct (pack_val_ok t v Hw0 Hv) as [b [Hpb [Hlb _]]].
      exists (b ++ zero_reserved r (skipn (width t) data)).
      cbn [pack_fields]. rewrite Hpb. cbn [bind].
      rewrite enc_seq; [| exact Hw | rewrite skipn_length; lia | apply all_bytes_skipn; exact Hb].
      cbn [bind]. split; [reflexivity|].
      split; [rewrite app_length, zero_reserved_length by (rewrite skipn_length; lia); lia|].
      split; [reflexivity|].
      cbn [Nat.add]. rewrite skipn_app_exact by exact Hlb.
      rewrite skipn_app_exact by exact Hpl. reflexivity.
    + rewrite field_pos_shift in Hpos.
      destruct (field_pos r name 0) as [[o w']|] eqn:Hp0; [|discriminate].
      injection Hpos as Hoff Hwid. subst off w'. cbn [Nat.add].
      assert (Hin' : In (name, t) r).
      { destruct Hin as [Heq|Hin']; [|exact Hin'].
        injection Heq as Hn _. subst n. rewrite String.eqb_refl in En. discriminate. }
      assert (Hu' : names_unique (map fst r) = true).
      { cbn [map fst names_unique] in Hu. apply andb_true_iff in Hu. destruct Hu as [_ Hu]. exact Hu. }
      destruct (IH (skipn (width t0) data) name v o w t) as [d [Hpd [Hld [Hfd Hsd]]]];
        [exact Hw | rewrite skipn_length; lia | apply all_bytes_skipn; exact Hb
        | exact Hu' | exact Hp0 | exact Hin' | exact Hv |].
      cbn [pack_fields].
      rewrite pack_spec;
        [| exact Hw0 | apply firstn_length_le; lia | apply all_bytes_firstn; exact Hb].
      rewrite Hpd. cbn [bind].
      exists ((match t0 with TPad n0 => zeros n0 | _ => firstn (width t0) data end) ++ d).
      split; [destruct t0; reflexivity|].
      split; [rewrite app_length; lia|].
      split.
      * rewrite !firstn_app_add by exact Hpl. rewrite Hfd. reflexivity.
      * rewrite <- !Nat.add_assoc. rewrite !skipn_app_add by exact Hpl. exact Hsd.
Qed.

Lemma edit_local : forall l data name v off w,
  widths_ok l = true -> List.length data = size l -> all_bytes data = true -> ch_valid l 0 data = true ->
  names_unique (map fst l) = true ->
  field_pos l name 0 = Some (off, w) ->
  (exists t, In (name, t) l /\ val_ok t v = true) ->
  exists data', encode (setf (spec_decode l 0 data) name v) = Ok data'
    /\ List.length data' = List.length data
    /\ firstn off data' = firstn off (zero_reserved l data)
    /\ skipn (off + w) data' = skipn (off + w) (zero_reserved l data).
Proof.
  intros l data name v off w Hw Hlen Hb _ Hu Hpos [t [Hin Hv]].
  rewrite spec_decode_seq. cbn [skipn]. unfold encode. rewrite Hlen.
  apply (edit_seq l data name v off w t); try assumption. lia.
Qed.

Lemma zero_reserved_pos_seq : forall l data name off w t,
  (size l <= List.length data)%nat -> names_unique (map fst l) = true ->
  field_pos l name 0 = Some (off, w) -> In (name, t) l ->
  match t with TPad _ => True | _ => slice (zero_reserved l data) off w = slice data off w end.
Proof.
  intros l. induction l as [|[n t0] r IH]; intros data name off w t Hlen Hu Hpos Hin.
  - discriminate.
  - rewrite size_cons in *.
    assert (Hpl := piece_length t0 data ltac:(lia)).
    cbn [field_pos] in Hpos.
    destruct (String.eqb n name) eqn:En.
    + injection Hpos as Hoff Hwid. subst off w.
      assert (Ht : t0 = t).
      { destruct Hin as [Heq|Hin']; [injection Heq as _ Heq; exact Heq|].
        exfalso. exact (unique_head_notin n t0 r name t Hu En Hin'). }
      subst t0.
      destruct t as [k|k|k|k|k]; try exact I; unfold slice; cbn [zero_reserved skipn width] in *;
        rewrite firstn_app_exact by exact Hpl; reflexivity.
    + rewrite field_pos_shift in Hpos.
      destruct (field_pos r name 0) as [[o w']|] eqn:Hp0; [|discriminate].
      injection Hpos as Hoff Hwid. subst off w'. cbn [Nat.add].
      assert (Hin' : In (name, t) r).
      { destruct Hin as [Heq|Hin']; [|exact Hin'].
        injection Heq as Hn _. subst n. rewrite String.eqb_refl in En. discriminate. }
      assert (Hu' : names_unique (map fst r) = true).
      { cbn [map fst names_unique] in Hu. apply andb_true_iff in Hu. destruct Hu as [_ Hu]. exact Hu. }
      assert (Hlen' : (size r <= List.length (skipn (width t0) data))%nat)
        by (rewrite skipn_length; lia).
      specialize (IH (skipn (width t0) data) name o w t Hlen' Hu' Hp0 Hin').
      destruct t as [k|k|k|k|k]; try exact I; unfold slice in *; cbn [zero_reserved];
        rewrite skipn_app_add by exact Hpl; rewrite skipn_add; exact IH.
Qed.

Lemma zero_reserved_pos : forall l data name off w t,
  List.length data = size l -> names_unique (map fst l) = true ->
  field_pos l name 0 = Some (off, w) -> In (name, t) l ->
  match t with TPad _ => True | _ => slice (zero_reserved l data) off w = slice data off w end.
Proof.
  intros l data name off w t Hlen Hu Hpos Hin.
  apply (zero_reserved_pos_seq l data name off w t); try assumption. lia.
Qed.
