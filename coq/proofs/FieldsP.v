(* FieldsP.v — proofs about the Fields model (types.py): decoding follows the layout offsets,
   encoding inverts decoding, edits are local. Used by props/C07gen.v and props/C08.v. *)
From Coq Require Import Lia ZifyBool ZifyN ZifyNat.
From Ubx Require Import Fields Base FieldsSpec.
Ltac Zify.zify_post_hook ::= Z.to_euclidean_division_equations.
Open Scope N_scope.

(* ------------------------------------------------------------------------- *)
(* list helpers                                                               *)
(* ------------------------------------------------------------------------- *)
Lemma skipn_add : forall (A : Type) (a b : nat) (l : list A),
  skipn (a + b) l = skipn b (skipn a l).
Proof.
  intros A a. induction a as [|a IH]; intros b l.
  - reflexivity.
  - destruct l as [|x l].
    + cbn [Nat.add skipn]. destruct b; reflexivity.
    + cbn [Nat.add skipn]. apply IH.
Qed.

Lemma firstn_app_exact : forall (A : Type) (a b : list A) (n : nat),
  List.length a = n -> firstn n (a ++ b) = a.
Proof.
  intros A a b n Hn. subst n. rewrite firstn_app, Nat.sub_diag.
  cbn [firstn]. rewrite firstn_all, app_nil_r. reflexivity.
Qed.

Lemma skipn_app_exact : forall (A : Type) (a b : list A) (n : nat),
  List.length a = n -> skipn n (a ++ b) = b.
Proof.
  intros A a b n Hn. subst n. rewrite skipn_app, Nat.sub_diag, skipn_all.
  reflexivity.
Qed.

Lemma firstn_app_add : forall (A : Type) (a b : list A) (n k : nat),
  List.length a = n -> firstn (n + k) (a ++ b) = a ++ firstn k b.
Proof.
  intros A a b n k Hn. subst n. rewrite firstn_app.
  rewrite firstn_all2 by lia. f_equal. f_equal. lia.
Qed.

Lemma skipn_app_add : forall (A : Type) (a b : list A) (n k : nat),
  List.length a = n -> skipn (n + k) (a ++ b) = skipn k b.
Proof.
  intros A a b n k Hn. rewrite skipn_add, (skipn_app_exact _ a b n Hn). reflexivity.
Qed.

Lemma all_bytes_firstn : forall n l, all_bytes l = true -> all_bytes (firstn n l) = true.
Proof.
  intros n. induction n as [|n IH]; intros l Hl.
  - reflexivity.
  - destruct l as [|x l]; [reflexivity|].
    cbn [firstn]. unfold all_bytes in *. cbn [forallb] in *.
    apply andb_true_iff in Hl. destruct Hl as [Hx Hl].
    rewrite Hx. cbn [andb]. apply IH. exact Hl.
Qed.

Lemma all_bytes_skipn : forall n l, all_bytes l = true -> all_bytes (skipn n l) = true.
Proof.
  intros n. induction n as [|n IH]; intros l Hl.
  - exact Hl.
  - destruct l as [|x l]; [reflexivity|].
    cbn [skipn]. unfold all_bytes in *. cbn [forallb] in Hl.
    apply andb_true_iff in Hl. destruct Hl as [_ Hl]. apply IH. exact Hl.
Qed.

Lemma list_eqb_eq : forall a b, list_eqb a b = true -> a = b.
Proof.
  intros a. induction a as [|x a IH]; intros b H; destruct b as [|y b]; cbn [list_eqb] in H;
    try discriminate; try reflexivity.
  apply andb_true_iff in H. destruct H as [Hxy Hab].
  apply N.eqb_eq in Hxy. subst y. f_equal. apply IH. exact Hab.
Qed.

(* ------------------------------------------------------------------------- *)
(* pow256 and the little-endian codec                                         *)
(* ------------------------------------------------------------------------- *)
Lemma pow256_0 : pow256 0 = 1.
Proof. reflexivity. Qed.

Lemma pow256_S : forall w, pow256 (S w) = 256 * pow256 w.
Proof.
  intros w. unfold pow256.
  replace (8 * N.of_nat (S w)) with (8 + 8 * N.of_nat w) by lia.
  rewrite N.pow_add_r. reflexivity.
Qed.

Lemma pow256_pos : forall w, 0 < pow256 w.
Proof.
  intros w. induction w as [|w IH].
  - rewrite pow256_0. lia.
  - rewrite pow256_S. lia.
Qed.

Lemma pow256_even : forall w, w <> 0%nat -> exists q, 0 < q /\ pow256 w = 256 * q.
Proof.
  intros w Hw. destruct w as [|w]; [contradiction|].
  exists (pow256 w). split; [apply pow256_pos | apply pow256_S].
Qed.

Local Opaque pow256.

Lemma le_enc_length : forall w v, List.length (le_enc w v) = w.
Proof.
  intros w. induction w as [|w IH]; intros v.
  - reflexivity.
  - cbn [le_enc List.length]. rewrite IH. reflexivity.
Qed.

Lemma le_enc_bytes : forall w v, all_bytes (le_enc w v) = true.
Proof.
  intros w. induction w as [|w IH]; intros v.
  - reflexivity.
  - cbn [le_enc]. unfold all_bytes in *. cbn [forallb]. rewrite IH.
    unfold is_byte. rewrite andb_true_r. apply N.ltb_lt. apply N.mod_lt. lia.
Qed.

Lemma le_dec_bound : forall bs, all_bytes bs = true -> le_dec bs < pow256 (List.length bs).
Proof.
  intros bs. induction bs as [|b t IH]; intros Hb.
  - cbn [le_dec List.length]. rewrite pow256_0. lia.
  - unfold all_bytes in *. cbn [forallb] in Hb.
    apply andb_true_iff in Hb. destruct Hb as [Hb Ht].
    unfold is_byte in Hb. apply N.ltb_lt in Hb.
    specialize (IH Ht). cbn [le_dec List.length]. rewrite pow256_S. lia.
Qed.

Lemma le_enc_dec : forall bs, all_bytes bs = true -> le_enc (List.length bs) (le_dec bs) = bs.
Proof.
  intros bs. induction bs as [|b t IH]; intros Hb.
  - reflexivity.
  - unfold all_bytes in *. cbn [forallb] in Hb.
    apply andb_true_iff in Hb. destruct Hb as [Hb Ht].
    unfold is_byte in Hb. apply N.ltb_lt in Hb.
    cbn [le_dec List.length le_enc].
    replace ((b + 256 * le_dec t) mod 256) with b by lia.
    replace ((b + 256 * le_dec t) / 256) with (le_dec t) by lia.
    rewrite (IH Ht). reflexivity.
Qed.

Lemma le_dec_enc : forall w v, le_dec (le_enc w v) = v mod pow256 w.
Proof.
  intros w. induction w as [|w IH]; intros v.
  - cbn [le_enc le_dec]. rewrite pow256_0. rewrite N.mod_1_r. reflexivity.
  - cbn [le_enc le_dec]. rewrite IH, pow256_S.
    pose proof (pow256_pos w) as Hp.
    rewrite N.mod_mul_r by lia. reflexivity.
Qed.

Lemma le_dec_enc_small : forall w v, v < pow256 w -> le_dec (le_enc w v) = v.
Proof. intros w v Hv. rewrite le_dec_enc. apply N.mod_small. exact Hv. Qed.
