(* Proofs about the handshake loop enable_loop (model/Gpsd.v). *)
From Ubx Require Import Fields Base Gpsd GpsdP.

Lemma enable_loop_prefix_gen : forall cs s s' rest,
  enable_loop s cs = Ok (s', rest) ->
  exists used, cs = used ++ rest /\ parse_chunks s used = Ok s'
    /\ (g_enabled s' = false -> rest = []).
Proof.
  induction cs as [|c t IH]; intros s s' rest H.
  - cbn in H. inversion H; subst. exists []. cbn. repeat split; auto.
  - cbn [enable_loop] in H.
    destruct (parse_chunk s c) as [s1|e] eqn:Hc; [|discriminate H].
    destruct (g_enabled s1) eqn:He.
    + inversion H; subst. exists [c]. cbn [parse_chunks app]. rewrite Hc. cbn.
      repeat split; auto. intro Hf. rewrite Hf in He. discriminate He.
    + destruct (IH s1 s' rest H) as [used [Hcs [Hp Hr]]].
      exists (c :: used). cbn [parse_chunks app]. rewrite Hc. cbn [bind].
      repeat split; auto. rewrite Hcs. reflexivity.
Qed.

Lemma enable_loop_reads_prefix : forall req cs s' rest,
  enable_loop (ginit req) cs = Ok (s', rest) ->
  exists used, cs = used ++ rest /\ parse_chunks (ginit req) used = Ok s'
    /\ (g_enabled s' = false -> rest = []).
Proof. intros req cs s' rest H. exact (enable_loop_prefix_gen cs (ginit req) s' rest H). Qed.

Lemma enable_loop_no_raise_gen : forall cs s,
  forallb chunk_ok cs = true -> exists s' rest, enable_loop s cs = Ok (s', rest).
Proof.
  induction cs as [|c t IH]; intros s H.
  - exists s, []. reflexivity.
  - cbn [forallb] in H. apply andb_prop in H. destruct H as [Hc Ht].
    destruct (chunk_no_raise c s Hc) as [s1 Hs1].
    cbn [enable_loop]. rewrite Hs1.
    destruct (g_enabled s1) eqn:He.
    + exists s1, t. reflexivity.
    + exact (IH s1 Ht).
Qed.

Lemma enable_loop_no_raise : forall req cs,
  forallb chunk_ok cs = true -> exists s' rest, enable_loop (ginit req) cs = Ok (s', rest).
Proof. intros req cs H. exact (enable_loop_no_raise_gen cs (ginit req) H). Qed.

Lemma ready_addresses_selected : forall req cs s' rest,
  enable_loop (ginit req) cs = Ok (s', rest) -> g_enabled s' = true ->
  exists d, g_sel s' = Some d /\ cmd_header s' = Some (append "&" (append d "="))
            /\ (forall r, requested (ginit req) = Some r -> d = r).
Proof.
  intros req cs s' rest H He.
  destruct (enable_loop_reads_prefix req cs s' rest H) as [used [_ [Hp _]]].
  destruct (handshake_invariant used req s' Hp) as [Hiff [Hreq _]].
  destruct (g_sel s') as [d|] eqn:Hsel.
  - exists d. split; [reflexivity|]. split.
    + apply cmd_header_ok. exact Hsel.
    + intros r Hr. destruct (Hreq r Hr) as [Hn|Hs].
      * discriminate Hn.
      * inversion Hs. reflexivity.
  - exfalso. apply (proj1 Hiff He). reflexivity.
Qed.
