(* Proofs about the UBX parser model: chunk independence, restart, filter, queue discipline
   (used by props/C09.v and props/C11.v), plus the step equations reused by
   ParserUbxComplete.v. *)
From Coq Require Import Lia ZifyBool ZifyN ZifyNat.
From Ubx Require Import Base Checksum Frame ParserUbx ParserUbxSpec ChecksumP FrameP.
Ltac Zify.zify_post_hook ::= Z.to_euclidean_division_equations.

(* ------------------------------------------------------------------ basic equations *)
Lemma process_nil p : process p [] = p.
Proof. reflexivity. Qed.

Lemma process_cons p d t : process p (d :: t) = process (step p d) t.
Proof. reflexivity. Qed.

Lemma process_app p a b : process p (a ++ b) = process (process p a) b.
Proof. unfold process. apply fold_left_app. Qed.

Lemma step_INIT r q n f d :
  step (mkParser INIT r q n f) d =
  if d =? 181 then mkParser SYNC r q n f else mkParser INIT r q n f.
Proof. reflexivity. Qed.

Lemma step_SYNC r q n f d :
  step (mkParser SYNC r q n f) d =
  if d =? 98 then mkParser CLASS regs0 q n f
  else if d =? 181 then mkParser SYNC r q n f
  else mkParser INIT r q n f.
Proof. reflexivity. Qed.

(* run, one operation at a time *)
Lemma run_cons p o t :
  run p (o :: t) =
  (fst (run (fst (run_op p o)) t), snd (run_op p o) :: snd (run (fst (run_op p o)) t)).
Proof.
  cbn [run]. destruct (run_op p o) as [p1 x]. cbn [fst snd].
  destruct (run p1 t) as [p2 xs]. reflexivity.
Qed.

(* unfold one parser step and split on every condition it tests *)
Ltac step_cases :=
  unfold step, with_st, with_rg;
  cbn [st rg queue rx filt mcls mid mlen mdata mcka mckb ofs cks];
  repeat match goal with |- context [if ?c then _ else _] => destruct c end.

Ltac solve_disj :=
  first [ left; reflexivity | right; left; reflexivity | right; right; reflexivity ].

(* ------------------------------------------------------------------ C09: chunking *)
Lemma chunk_indep_ubx : forall p a b, process (process p a) b = process p (a ++ b).
Proof. intros p a b. symmetry. apply process_app. Qed.

Lemma chunks_indep_ubx : forall chunks p,
  fold_left process chunks p = process p (concat chunks).
Proof.
  induction chunks as [|c t IH]; intros p.
  - reflexivity.
  - cbn [fold_left concat]. rewrite process_app. apply IH.
Qed.

(* ------------------------------------------------------------------ C09: restart *)
(* [off q0 n0 p q]: p and q are in the same control state with the same filter, p's queue is
   q's queue behind the prefix q0, p's counter is q's plus n0, and the registers agree
   wherever they are live (they are dead in INIT and SYNC: SYNC -> CLASS installs regs0). *)
Definition off (q0 : list pkt) (n0 : N) (p q : parser) : Prop :=
  st p = st q /\ queue p = q0 ++ queue q /\ rx p = n0 + rx q /\ filt p = filt q
  /\ (st p = INIT \/ st p = SYNC \/ rg p = rg q).

Lemma off_step q0 n0 p q d : off q0 n0 p q -> off q0 n0 (step p d) (step q d).
Proof.
  intros (Hst & Hq & Hn & Hf & Hr).
  destruct p as [s r qu n f], q as [s' r' qu' n' f'].
  cbn [st rg queue rx filt] in Hst, Hq, Hn, Hf, Hr. subst s qu n f.
  destruct s'; destruct Hr as [Hr|[Hr|Hr]]; try discriminate Hr; try subst r;
    step_cases; unfold off; cbn [st rg queue rx filt];
    repeat split; try reflexivity; try solve_disj;
    try (rewrite <- app_assoc; reflexivity); try lia.
Qed.

Lemma off_process q0 n0 d : forall p q,
  off q0 n0 p q -> off q0 n0 (process p d) (process q d).
Proof.
  induction d as [|x t IH]; intros p q H.
  - exact H.
  - rewrite !process_cons. apply IH, off_step, H.
Qed.

Definition sim (p q : parser) : Prop :=
  st p = st q /\ queue p = queue q /\ rx p = rx q /\ filt p = filt q
  /\ (st p = INIT \/ st p = SYNC \/ rg p = rg q).

Lemma sim_off p q : sim p q <-> off [] 0 p q.
Proof. unfold sim, off. rewrite N.add_0_l. cbn [app]. reflexivity. Qed.

Lemma sim_process d p q : sim p q -> sim (process p d) (process q d).
Proof. rewrite !sim_off. apply off_process. Qed.

Lemma sim_run_op p q o : sim p q ->
  snd (run_op p o) = snd (run_op q o) /\ sim (fst (run_op p o)) (fst (run_op q o)).
Proof.
  intros H. destruct o as [d|c|l| | |].
  - cbn [run_op fst snd]. split; [reflexivity | apply sim_process, H].
  - destruct H as (Hst & Hq & Hn & Hf & Hr).
    cbn [run_op fst snd]. unfold sim, set_filter, set_filters. cbn [st rg queue rx filt]. auto 10.
  - destruct H as (Hst & Hq & Hn & Hf & Hr).
    cbn [run_op fst snd]. unfold sim, set_filters. cbn [st rg queue rx filt]. auto 10.
  - destruct H as (Hst & Hq & Hn & Hf & Hr).
    cbn [run_op fst snd]. unfold sim, empty_queue. cbn [st rg queue rx filt]. auto 10.
  - destruct H as (Hst & Hq & Hn & Hf & Hr).
    cbn [run_op]. unfold packet. rewrite Hq.
    destruct (queue q) as [|x qt] eqn:Eq; cbn [fst snd]; (split; [reflexivity|]).
    + unfold sim. rewrite Hq, Eq. auto 10.
    + unfold sim. cbn [st rg queue rx filt]. auto 10.
  - destruct H as (Hst & Hq & Hn & Hf & Hr).
    cbn [run_op fst snd]. unfold sim, restart, with_st. cbn [st rg queue rx filt]. auto 10.
Qed.

Lemma sim_run ops : forall p q, sim p q ->
  snd (run p ops) = snd (run q ops) /\ sim (fst (run p ops)) (fst (run q ops)).
Proof.
  induction ops as [|o t IH]; intros p q H.
  - cbn [run fst snd]. split; [reflexivity | exact H].
  - rewrite !run_cons. cbn [fst snd].
    destruct (sim_run_op p q o H) as [Hout Hsim].
    destruct (IH _ _ Hsim) as [Houts Hsim'].
    split; [rewrite Hout, Houts; reflexivity | exact Hsim'].
Qed.

Lemma restart_fresh_ubx : forall p ops,
  let a := run (restart p) ops in
  let b := run (fresh_keeping p) ops in
  snd a = snd b /\ queue (fst a) = queue (fst b) /\ rx (fst a) = rx (fst b)
  /\ filt (fst a) = filt (fst b).
Proof.
  intros p ops a b. subst a b.
  assert (H0 : sim (restart p) (fresh_keeping p)).
  { unfold sim, restart, fresh_keeping, with_st. cbn [st rg queue rx filt]. auto 10. }
  destruct (sim_run ops _ _ H0) as [Hout (Hst & Hq & Hn & Hf & Hr)].
  auto.
Qed.

Lemma restart_offset_ubx : forall p s,
  queue (process (restart p) s) = queue p ++ queue (process (fresh (filt p)) s)
  /\ rx (process (restart p) s) = rx p + rx (process (fresh (filt p)) s).
Proof.
  intros p s.
  assert (H0 : off (queue p) (rx p) (restart p) (fresh (filt p))).
  { unfold off, restart, fresh, with_st. cbn [st rg queue rx filt].
    rewrite app_nil_r, N.add_0_r. auto 10. }
  destruct (off_process _ _ s _ _ H0) as (Hst & Hq & Hn & Hf & Hr).
  split; assumption.
Qed.

(* ------------------------------------------------------------------ C11: filter *)
Lemma crc2_valid : forall p d,
  st p = CRC2 -> ck_matches (cks (rg p)) (mcka (rg p)) d = true ->
  rx (step p d) = rx p + 1
  /\ queue (step p d) = queue p ++
       (if in_filter (filt p) (mcls (rg p), mid (rg p))
        then [Pkt (mcls (rg p)) (mid (rg p)) (mdata (rg p))] else []).
Proof.
  intros p d Hst Hm. unfold step. rewrite Hst, Hm.
  destruct (in_filter (filt p) (mcls (rg p), mid (rg p))); cbn [rx queue].
  - split; reflexivity.
  - rewrite app_nil_r. split; reflexivity.
Qed.

Lemma cid_eqb_eq (a b : cid) : cid_eqb a b = true <-> a = b.
Proof.
  destruct a as [a1 a2], b as [b1 b2]. unfold cid_eqb. cbn [fst snd].
  rewrite andb_true_iff, !N.eqb_eq.
  split; [intros [-> ->]; reflexivity | intros H; inversion H; auto].
Qed.

Lemma in_filter_spec : forall l c, in_filter (Some l) c = true <-> In c l.
Proof.
  intros l c. cbn [in_filter]. rewrite existsb_exists. split.
  - intros (x & Hin & Heq). apply cid_eqb_eq in Heq. subst x. exact Hin.
  - intros Hin. exists c. split; [exact Hin | apply cid_eqb_eq; reflexivity].
Qed.

Lemma no_filter_no_packets : forall c,
  in_filter None c = false /\ in_filter (Some []) c = false.
Proof. intros c. split; reflexivity. Qed.

(* [core p q]: same control state, registers and counter; queue and filter are free *)
Definition core (p q : parser) : Prop := st p = st q /\ rg p = rg q /\ rx p = rx q.

Lemma core_refl p : core p p.
Proof. unfold core. auto. Qed.

Lemma core_step p q d : core p q -> core (step p d) (step q d).
Proof.
  intros (Hst & Hr & Hn).
  destruct p as [s r qu n f], q as [s' r' qu' n' f'].
  cbn [st rg rx] in Hst, Hr, Hn. subst s r n.
  destruct s'; step_cases; unfold core; cbn [st rg rx]; auto.
Qed.

Lemma core_process d : forall p q, core p q -> core (process p d) (process q d).
Proof.
  induction d as [|x t IH]; intros p q H.
  - exact H.
  - rewrite !process_cons. apply IH, core_step, H.
Qed.

Lemma core_run_op p q o : core p q -> core (fst (run_op p o)) (fst (run_op q o)).
Proof.
  intros H. destruct o as [d|c|l| | |]; cbn [run_op fst].
  - apply core_process, H.
  - exact H.
  - exact H.
  - exact H.
  - destruct H as (Hst & Hr & Hn). unfold packet.
    destruct (queue p), (queue q); cbn [fst]; unfold core; cbn [st rg rx]; auto.
  - destruct H as (Hst & Hr & Hn). unfold core, restart, with_st. cbn [st rg rx]. auto.
Qed.

Lemma core_filter_l p q o :
  is_filter_op o = true -> core p q -> core (fst (run_op p o)) q.
Proof.
  intros Hf H. destruct o; try discriminate Hf; cbn [run_op fst]; exact H.
Qed.

Lemma core_run ops : forall p q, core p q ->
  core (fst (run p ops)) (fst (run q (filter (fun o => negb (is_filter_op o)) ops))).
Proof.
  induction ops as [|o t IH]; intros p q H.
  - exact H.
  - cbn [filter]. destruct (is_filter_op o) eqn:E; cbn [negb].
    + rewrite run_cons. cbn [fst]. apply IH, core_filter_l; assumption.
    + rewrite !run_cons. cbn [fst]. apply IH, core_run_op, H.
Qed.

Lemma rx_filter_indep : forall ops p,
  rx (fst (run p ops)) = rx (fst (run p (filter (fun o => negb (is_filter_op o)) ops))).
Proof. intros ops p. apply (core_run ops p p (core_refl p)). Qed.

(* ------------------------------------------------------------------ C11: queue discipline *)
Lemma packet_fifo : forall p x q,
  queue p = x :: q -> fst (packet p) = Some x /\ queue (snd (packet p)) = q.
Proof. intros p x q H. unfold packet. rewrite H. split; reflexivity. Qed.

Lemma packet_empty : forall p, queue p = [] -> packet p = (None, p).
Proof. intros p H. unfold packet. rewrite H. reflexivity. Qed.

Lemma empty_queue_clears : forall p, queue (empty_queue p) = [].
Proof. reflexivity. Qed.

Lemma step_appends p d : exists app, queue (step p d) = queue p ++ app.
Proof.
  destruct p as [s r q n f]. cbn [queue].
  destruct s; step_cases;
    first [ exists []; rewrite app_nil_r; reflexivity | eexists; reflexivity ].
Qed.

Lemma process_appends : forall d p, exists app, queue (process p d) = queue p ++ app.
Proof.
  induction d as [|x t IH]; intros p.
  - exists []. rewrite app_nil_r. reflexivity.
  - rewrite process_cons.
    destruct (IH (step p x)) as [a2 H2]. destruct (step_appends p x) as [a1 H1].
    exists (a1 ++ a2). rewrite H2, H1, app_assoc. reflexivity.
Qed.

Lemma queue_kept : forall p l c,
  queue (set_filters p l) = queue p /\ queue (set_filter p c) = queue p
  /\ queue (restart p) = queue p.
Proof. intros p l c. repeat split; reflexivity. Qed.

Lemma skipn_length_app {A} (l a : list A) : skipn (length l) (l ++ a) = a.
Proof. induction l as [|x t IH]; [reflexivity | exact IH]. Qed.

(* One operation either keeps the queue, appends at the back, drops the head or drops all. *)
Lemma run_op_shifts p o :
  exists n app, queue (fst (run_op p o)) = skipn n (queue p ++ app).
Proof.
  destruct o as [d|c|l| | |]; cbn [run_op fst].
  - destruct (process_appends d p) as [a H]. exists 0%nat, a. exact H.
  - exists 0%nat, []. rewrite app_nil_r. reflexivity.
  - exists 0%nat, []. rewrite app_nil_r. reflexivity.
  - exists (length (queue p)), []. rewrite skipn_length_app. reflexivity.
  - unfold packet. destruct (queue p) as [|x qt] eqn:Eq; cbn [fst queue].
    + exists 0%nat, []. rewrite Eq. reflexivity.
    + exists 1%nat, []. rewrite app_nil_r. reflexivity.
  - exists 0%nat, []. rewrite app_nil_r. reflexivity.
Qed.

Lemma skipn_len_add {A} (pre X : list A) m : skipn (length pre + m) (pre ++ X) = skipn m X.
Proof. induction pre as [|x t IH]; [reflexivity | exact IH]. Qed.

Lemma skipn_skipn_app {A} n m (l a b : list A) :
  exists k c, skipn m (skipn n (l ++ a) ++ b) = skipn k (l ++ c).
Proof.
  destruct (Nat.le_gt_cases n (length (l ++ a))) as [Hle|Hgt].
  - remember (firstn n (l ++ a)) as pre eqn:Hpre.
    remember (skipn n (l ++ a)) as suf eqn:Hsuf.
    assert (Hsplit : l ++ a = pre ++ suf) by (subst pre suf; symmetry; apply firstn_skipn).
    assert (Hl : length pre = n) by (subst pre; apply firstn_length_le; exact Hle).
    exists (n + m)%nat, (a ++ b).
    rewrite app_assoc, Hsplit, <- app_assoc, <- Hl.
    symmetry. apply skipn_len_add.
  - rewrite (skipn_all2 (n := n) (l ++ a)) by lia. cbn [app].
    exists (length (l ++ a) + m)%nat, (a ++ b).
    rewrite app_assoc. symmetry. apply skipn_len_add.
Qed.

Lemma queue_only_shifts : forall ops p,
  exists n app, queue (fst (run p ops)) = skipn n (queue p ++ app).
Proof.
  induction ops as [|o t IH]; intros p.
  - exists 0%nat, []. cbn [run fst skipn]. rewrite app_nil_r. reflexivity.
  - rewrite run_cons. cbn [fst].
    destruct (IH (fst (run_op p o))) as (m & b & H2).
    destruct (run_op_shifts p o) as (n & a & H1).
    rewrite H2, H1. apply skipn_skipn_app.
Qed.
