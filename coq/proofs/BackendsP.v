From Coq Require Import Lia ZifyBool ZifyN ZifyNat.
From Ubx Require Import Fields Base Backends.
#[local] Ltac Zify.zify_post_hook ::= Z.to_euclidean_division_equations.

Lemma tty_tx_ok written data :
  snd (tty_transmit written data) = true <-> written = Z.of_nat (length data).
Proof. unfold tty_transmit; cbn [snd]. apply Z.eqb_eq. Qed.

Lemma tty_tx_bytes written data : fst (tty_transmit written data) = data.
Proof. reflexivity. Qed.

Lemma tty_recover_ok p : p_open p = true ->
  exists p', tty_recover p = Ok p' /\ p_open p' = true /\ p_baud p' = p_baud p
             /\ p_baud_log p' = p_baud_log p ++ [9600%Z; p_baud p].
Proof. intros H. unfold tty_recover. rewrite H. eexists; repeat split; reflexivity. Qed.

Lemma hexdigit_inv n : n < 16 -> unhexdigit (hexdigit n) = n.
Proof.
  intros H. unfold hexdigit, unhexdigit.
  destruct (n <? 10) eqn:E1.
  - destruct (48 + n <? 58) eqn:E2; lia.
  - destruct (87 + n <? 58) eqn:E2; lia.
Qed.

Lemma hexdigit_lower n : n < 16 ->
  (48 <= hexdigit n <= 57) \/ (97 <= hexdigit n <= 102).
Proof. intros H. unfold hexdigit. destruct (n <? 10) eqn:E; lia. Qed.

Theorem unhex_hex d : Forall (fun b => b < 256) d -> unhexlify (hexlify d) = d.
Proof.
  induction d as [|b t IH]; intros H; [reflexivity|].
  inversion H as [|? ? Hb Ht]; subst.
  cbn [hexlify unhexlify]. rewrite !hexdigit_inv by lia. rewrite IH by assumption.
  f_equal. lia.
Qed.

Theorem hex_length d : length (hexlify d) = (2 * length d)%nat.
Proof. induction d as [|b t IH]; cbn [hexlify length]; lia. Qed.

Theorem hex_lowercase d : Forall (fun b => b < 256) d ->
  Forall (fun c => (48 <= c <= 57) \/ (97 <= c <= 102)) (hexlify d).
Proof.
  induction d as [|b t IH]; intros H; [constructor|].
  inversion H as [|? ? Hb Ht]; subst. cbn [hexlify].
  constructor; [apply hexdigit_lower; lia|]. constructor; [apply hexdigit_lower; lia|]. auto.
Qed.

Theorem gpsd_cmd device data reply :
  fst (gpsd_transmit device data reply) = [38] ++ device ++ [61] ++ hexlify data.
Proof. reflexivity. Qed.

Theorem gpsd_ok_only device data reply :
  snd (gpsd_transmit device data reply) = Ok true ->
  exists r, reply = GReply r /\ (contains OK_ r = true \/ contains ACK_ r = true).
Proof.
  unfold gpsd_transmit; cbn [snd]. destruct reply as [r|]; [|discriminate].
  destruct (utf8_valid r); [|discriminate].
  intros H. exists r. split; [reflexivity|].
  apply orb_true_iff. congruence.
Qed.

Theorem gpsd_sockerror device data : snd (gpsd_transmit device data GSockError) = Ok false.
Proof. reflexivity. Qed.

Lemma starts_with_spec n : forall h, starts_with n h = true <-> exists b, h = n ++ b.
Proof.
  induction n as [|x t IH]; intros h.
  - cbn. split; [intros _; exists h; reflexivity | reflexivity].
  - destruct h as [|y r]; cbn [starts_with].
    + split; [discriminate | intros (b & H); discriminate].
    + rewrite andb_true_iff, N.eqb_eq, IH. split.
      * intros (-> & b & ->). exists b. reflexivity.
      * intros (b & H). inversion H; subst. split; [reflexivity | exists b; reflexivity].
Qed.

Theorem contains_spec needle : forall hay,
  contains needle hay = true <-> exists a b, hay = a ++ needle ++ b.
Proof.
  induction hay as [|h t IH].
  - cbn [contains]. rewrite orb_false_r, starts_with_spec. split.
    + intros (b & H). exists [], b. exact H.
    + intros (a & b & H). destruct a as [|? ?]; [exists b; exact H | discriminate].
  - cbn [contains]. rewrite orb_true_iff, starts_with_spec, IH. split.
    + intros [(b & H) | (a & b & H)].
      * exists [], b. exact H.
      * exists (h :: a), b. cbn. f_equal. exact H.
    + intros (a & b & H). destruct a as [|x a'].
      * left. exists b. exact H.
      * right. cbn in H. inversion H; subst. exists a', b. reflexivity.
Qed.
