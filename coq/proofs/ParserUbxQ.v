(* Queue stability over whole schedules (C11): without packet()/empty_queue() calls the queue
   held at the start is a prefix of the queue at the end — entries are never rewritten, reordered
   or dropped by parsing, filter changes or restart. *)
From Ubx Require Import Base Checksum ParserUbx ParserUbxSpec ParserUbxP.

Definition is_pop_op (o : op) : bool :=
  match o with OPacket | OEmptyQueue => true | _ => false end.

Lemma run_op_keeps_prefix o p :
  is_pop_op o = false -> exists app, queue (fst (run_op p o)) = queue p ++ app.
Proof.
  destruct o as [d|c|l| | |]; cbn [is_pop_op run_op fst]; intros H; try discriminate.
  - apply process_appends.
  - exists []. rewrite app_nil_r. reflexivity.
  - exists []. rewrite app_nil_r. reflexivity.
  - exists []. rewrite app_nil_r. reflexivity.
Qed.

Theorem queue_prefix_kept ops : forall p,
  forallb (fun o => negb (is_pop_op o)) ops = true ->
  exists app, queue (fst (run p ops)) = queue p ++ app.
Proof.
  induction ops as [|o t IH]; intros p H.
  - exists []. cbn. rewrite app_nil_r. reflexivity.
  - cbn [forallb] in H. apply andb_true_iff in H. destruct H as [Ho Ht].
    apply negb_true_iff in Ho.
    destruct (run_op_keeps_prefix o p Ho) as [a1 Ha1].
    cbn [run]. destruct (run_op p o) as [p' x] eqn:E. cbn [fst] in Ha1.
    destruct (IH p' Ht) as [a2 Ha2].
    destruct (run p' t) as [p'' xs] eqn:E2. cbn [fst] in *.
    exists (a1 ++ a2). rewrite Ha2, Ha1, app_assoc. reflexivity.
Qed.

(* packet() hands out exactly the oldest entry and leaves the rest as it was; together with the
   prefix theorem: what is handed out at any time is what was queued, in order. *)
Theorem packet_then_rest p x q :
  queue p = x :: q -> run_op p OPacket = (mkParser (st p) (rg p) q (rx p) (filt p), OPkt (Some x)).
Proof. intros H. cbn [run_op]. unfold packet. rewrite H. reflexivity. Qed.
