(* C10: a request's outcome is independent of the server's previous parser state and of further
   registrations (request_state_indep), hence of the earlier requests of a sequence
   (sequence_indep).

   Method: a simulation between two runs of the same request.
   - Two parsers are related ([psim]) when control state, queue and filter agree, the per-frame
     registers agree wherever they are live (they are dead in INIT and SYNC), and every queued
     packet passed the current filter.  The frame counter is ignored: the request layer never
     reads it.  [purge] establishes [psim] from ANY two parsers that carry the same filter.
   - Two worlds are related ([common]) when they have fixed registries R1 / R2 (agreeing on the
     CIDs of the filter), the same retry configuration, environment and clock, and their traces
     extend fixed prefixes t1 / t2 by the same events.  [weak] adds "same filter" (invariant
     between attempts), [strong] adds [psim] (invariant from the purge to the end of an attempt). *)
From Coq Require Import Lia.
From Ubx Require Import Fields Base Checksum Frame ParserUbx CfgKeys Request RequestSpec.
Open Scope N_scope.

(* ------------------------------------------------------------------ small facts *)
Lemma cid_eqb_true (a b : cid) : cid_eqb a b = true -> a = b.
Proof.
  destruct a as [a1 a2], b as [b1 b2]. unfold cid_eqb. cbn [fst snd].
  intros H. apply andb_true_iff in H. destruct H as [H1 H2].
  apply N.eqb_eq in H1. apply N.eqb_eq in H2. subst. reflexivity.
Qed.

Lemma cid_eqb_neq (a b : cid) : a <> b -> cid_eqb a b = false.
Proof.
  intros Hne. destruct (cid_eqb a b) eqn:Eab; [|reflexivity].
  exfalso. apply Hne, cid_eqb_true, Eab.
Qed.

Lemma skipn_len_app {A} (l a : list A) : skipn (List.length l) (l ++ a) = a.
Proof. induction l as [|x t IH]; [reflexivity | exact IH]. Qed.

(* ------------------------------------------------------------------ parser simulation *)
Definition qok (fl : list cid) (x : pkt) : Prop :=
  match x with
  | Pkt c i _ => in_filter (Some fl) (c, i) = true
  | CrcErr => True
  end.

Definition psim (fl : list cid) (p q : parser) : Prop :=
  st p = st q /\ queue p = queue q /\ filt p = Some fl /\ filt q = Some fl
  /\ (st p = INIT \/ st p = SYNC \/ rg p = rg q)
  /\ Forall (qok fl) (queue p).

Ltac solve_disj3 :=
  first [ left; reflexivity | right; left; reflexivity | right; right; reflexivity ].

Lemma psim_step fl p q d : psim fl p q -> psim fl (step p d) (step q d).
Proof.
  intros (Hst & Hq & Hf1 & Hf2 & Hr & Hok).
  destruct p as [s r qu n f], q as [s' r' qu' n' f'].
  cbn [st rg queue rx filt] in Hst, Hq, Hf1, Hf2, Hr, Hok. subst s qu f f'.
  destruct s'; destruct Hr as [Hr|[Hr|Hr]]; try discriminate Hr; try subst r;
    unfold step, with_st, with_rg;
    cbn [st rg queue rx filt mcls mid mlen mdata mcka mckb ofs cks];
    repeat match goal with |- context [if ?c then _ else _] => destruct c eqn:? end;
    unfold psim; cbn [st rg queue rx filt];
    (split; [reflexivity|]); (split; [reflexivity|]); (split; [reflexivity|]);
    (split; [reflexivity|]); (split; [solve_disj3|]);
    first [ exact Hok
          | apply Forall_app; split;
            [exact Hok | constructor; [first [assumption | exact I] | constructor]] ].
Qed.

Lemma psim_process fl d : forall p q, psim fl p q -> psim fl (process p d) (process q d).
Proof.
  induction d as [|x t IH]; intros p q H.
  - exact H.
  - change (process p (x :: t)) with (process (step p x) t).
    change (process q (x :: t)) with (process (step q x) t).
    apply IH, psim_step, H.
Qed.

Lemma psim_packet fl p q : psim fl p q ->
  fst (packet p) = fst (packet q) /\ psim fl (snd (packet p)) (snd (packet q))
  /\ match fst (packet p) with Some x => qok fl x | None => True end.
Proof.
  intros (Hst & Hq & Hf1 & Hf2 & Hr & Hok).
  destruct p as [s r qu n f], q as [s' r' qu' n' f'].
  cbn [st rg queue rx filt] in Hst, Hq, Hf1, Hf2, Hr, Hok. subst s qu f f'.
  unfold packet. cbn [st rg queue rx filt].
  destruct qu' as [|x qt]; cbn [fst snd].
  - split; [reflexivity|]. split; [|exact I].
    unfold psim. cbn [st rg queue rx filt]. auto 10.
  - inversion Hok as [|x0 l0 Hx Hqt]; subst x0 l0.
    split; [reflexivity|]. split; [|exact Hx].
    unfold psim. cbn [st rg queue rx filt]. auto 10.
Qed.

Lemma psim_purge fl p q : filt p = Some fl -> filt q = Some fl ->
  psim fl (restart (empty_queue p)) (restart (empty_queue q)).
Proof.
  intros Hp Hq. unfold psim, restart, empty_queue, with_st. cbn [st rg queue rx filt].
  auto 10.
Qed.

(* ------------------------------------------------------------------ one iteration of _wait *)
Section Step.
Context {E : Type} (B : backend E) (sk : list N).

Definition tick (deadline : N) (w : world E) : world E :=
  mkWorld (wsrv w) (wenv w) (wnow w) (wtrace w) (wtie w || (wnow w =? deadline)).

Definition rx_step (w : world E) : option pkt * world E :=
  let '(data, dt, e') := receive B (wenv w) in
  let w := log w e' (wnow w + dt) (Rx data dt) in
  let p := match nonempty data with
           | Some d => process (sparser (wsrv w)) d
           | None => sparser (wsrv w)
           end in
  let (x, p') := packet p in (x, with_parser w p').

Lemma wait_S k deadline w :
  wait B sk (S k) deadline w =
  if wnow w <? deadline then
    let (x, w') := rx_step (tick deadline w) in
    match x with
    | Some (Pkt c i payload) =>
        if is_crc_marker (Pkt c i payload) then wait B sk k deadline w'
        else match reg_lookup (sreg (wsrv w')) (c, i) with
             | None => wait B sk k deadline w'
             | Some (name, rk) =>
                 match build_with_data sk rk payload with
                 | Ok d => (Some (Some (mkRFrame name (c, i) payload d)), w')
                 | Raise _ => wait B sk k deadline w'
                 end
             end
    | Some CrcErr => wait B sk k deadline w'
    | None => wait B sk k deadline w'
    end
  else (Some None, tick deadline w).
Proof.
  cbn [wait]. unfold rx_step, tick. cbn [wsrv wenv wnow wtrace wtie].
  destruct (wnow w <? deadline); [|reflexivity].
  destruct (receive B (wenv w)) as [[data dt] e'].
  destruct (packet _) as [x p']. reflexivity.
Qed.
End Step.

(* ------------------------------------------------------------------ world simulation *)
Section Sim.
Context {E : Type} (B : backend E) (sk : list N).
Variables (t1 t2 : list event) (R1 R2 : registry) (nr : nat) (dl : N) (fl : list cid).
Hypothesis Hlook : forall c, in_filter (Some fl) c = true -> reg_lookup R1 c = reg_lookup R2 c.

Inductive common : world E -> world E -> Prop :=
| common_intro p1 p2 tr tie1 tie2 e now :
    common (mkWorld (mkSrv p1 R1 nr dl) e now (t1 ++ tr) tie1)
           (mkWorld (mkSrv p2 R2 nr dl) e now (t2 ++ tr) tie2).

Definition weak (w1 w2 : world E) : Prop :=
  common w1 w2 /\ filt (sparser (wsrv w1)) = Some fl /\ filt (sparser (wsrv w2)) = Some fl.
Definition strong (w1 w2 : world E) : Prop :=
  common w1 w2 /\ psim fl (sparser (wsrv w1)) (sparser (wsrv w2)).

(* what the top-level statements need *)
Definition post (w1 w2 : world E) : Prop :=
  skipn (List.length t1) (wtrace w1) = skipn (List.length t2) (wtrace w2)
  /\ wenv w1 = wenv w2 /\ wnow w1 = wnow w2
  /\ sreg (wsrv w1) = R1 /\ sreg (wsrv w2) = R2
  /\ sretries (wsrv w1) = nr /\ sretries (wsrv w2) = nr
  /\ sdelay (wsrv w1) = dl /\ sdelay (wsrv w2) = dl.

Lemma common_init p1 p2 tie1 tie2 e now :
  common (mkWorld (mkSrv p1 R1 nr dl) e now t1 tie1) (mkWorld (mkSrv p2 R2 nr dl) e now t2 tie2).
Proof.
  pose proof (common_intro p1 p2 [] tie1 tie2 e now) as H.
  rewrite !app_nil_r in H. exact H.
Qed.

Lemma common_post w1 w2 : common w1 w2 -> post w1 w2.
Proof.
  intros H. destruct H as [p1 p2 tr tie1 tie2 e now]. unfold post.
  cbn [wsrv wenv wnow wtrace sreg sretries sdelay]. rewrite !skipn_len_app. auto 10.
Qed.

Lemma common_now w1 w2 : common w1 w2 -> wnow w1 = wnow w2.
Proof. intros H. destruct H. reflexivity. Qed.
Lemma common_dl1 w1 w2 : common w1 w2 -> sdelay (wsrv w1) = dl.
Proof. intros H. destruct H. reflexivity. Qed.
Lemma common_dl2 w1 w2 : common w1 w2 -> sdelay (wsrv w2) = dl.
Proof. intros H. destruct H. reflexivity. Qed.
Lemma common_reg1 w1 w2 : common w1 w2 -> sreg (wsrv w1) = R1.
Proof. intros H. destruct H. reflexivity. Qed.
Lemma common_reg2 w1 w2 : common w1 w2 -> sreg (wsrv w2) = R2.
Proof. intros H. destruct H. reflexivity. Qed.

Lemma common_log w1 w2 e n ev : common w1 w2 -> common (log w1 e n ev) (log w2 e n ev).
Proof.
  intros H. destruct H as [p1 p2 tr tie1 tie2 e0 now]. unfold log.
  cbn [wsrv wenv wnow wtrace wtie]. rewrite <- !app_assoc. constructor.
Qed.

Lemma common_parser w1 w2 p q : common w1 w2 -> common (with_parser w1 p) (with_parser w2 q).
Proof.
  intros H. destruct H as [p1 p2 tr tie1 tie2 e0 now]. unfold with_parser.
  cbn [wsrv wenv wnow wtrace wtie sreg sretries sdelay]. constructor.
Qed.

Lemma common_tick d w1 w2 : common w1 w2 -> common (tick d w1) (tick d w2).
Proof.
  intros H. destruct H as [p1 p2 tr tie1 tie2 e0 now]. unfold tick.
  cbn [wsrv wenv wnow wtrace wtie]. constructor.
Qed.

Lemma common_flush w1 w2 : common w1 w2 -> common (do_flush B w1) (do_flush B w2).
Proof.
  intros H. unfold do_flush.
  assert (He : wenv w1 = wenv w2) by (destruct H; reflexivity).
  rewrite He, (common_now _ _ H). apply common_log, H.
Qed.

Lemma common_recover w1 w2 : common w1 w2 -> common (do_recover B w1) (do_recover B w2).
Proof.
  intros H. unfold do_recover.
  assert (He : wenv w1 = wenv w2) by (destruct H; reflexivity).
  rewrite He, (common_now _ _ H). apply common_log, H.
Qed.

Lemma common_send c pl w1 w2 : common w1 w2 ->
  fst (send B w1 c pl) = fst (send B w2 c pl)
  /\ common (snd (send B w1 c pl)) (snd (send B w2 c pl)).
Proof.
  intros H. unfold send.
  assert (He : wenv w1 = wenv w2) by (destruct H; reflexivity).
  rewrite He, (common_now _ _ H).
  destruct (transmit B (wenv w2) _) as [ok e']. cbn [fst snd].
  split; [reflexivity | apply common_log, H].
Qed.

Lemma send_parser c pl (w : world E) : sparser (wsrv (snd (send B w c pl))) = sparser (wsrv w).
Proof. unfold send. destruct (transmit B (wenv w) _) as [ok e']. reflexivity. Qed.

(* ---- weak: between attempts ---- *)
Lemma weak_flush w1 w2 : weak w1 w2 -> weak (do_flush B w1) (do_flush B w2).
Proof. intros (Hc & H1 & H2). split; [apply common_flush, Hc | split; assumption]. Qed.

Lemma weak_recover w1 w2 : weak w1 w2 -> weak (do_recover B w1) (do_recover B w2).
Proof. intros (Hc & H1 & H2). split; [apply common_recover, Hc | split; assumption]. Qed.

Lemma weak_send c pl w1 w2 : weak w1 w2 ->
  fst (send B w1 c pl) = fst (send B w2 c pl)
  /\ weak (snd (send B w1 c pl)) (snd (send B w2 c pl)).
Proof.
  intros (Hc & H1 & H2). destruct (common_send c pl _ _ Hc) as [Hok Hc'].
  split; [exact Hok|]. split; [exact Hc'|]. rewrite !send_parser. split; assumption.
Qed.

Lemma strong_weak w1 w2 : strong w1 w2 -> weak w1 w2.
Proof.
  intros (Hc & Hst & Hq & Hf1 & Hf2 & Hr & Hok). split; [exact Hc | split; assumption].
Qed.

Lemma strong_purge w1 w2 : weak w1 w2 -> strong (purge w1) (purge w2).
Proof.
  intros (Hc & H1 & H2). unfold purge. split.
  - apply common_parser, Hc.
  - destruct Hc. cbn [with_parser wsrv sparser] in *. apply psim_purge; assumption.
Qed.

Lemma strong_tick d w1 w2 : strong w1 w2 -> strong (tick d w1) (tick d w2).
Proof. intros (Hc & Hp). split; [apply common_tick, Hc | exact Hp]. Qed.

(* ---- one receive ---- *)
Lemma rx_step_sim w1 w2 : strong w1 w2 ->
  fst (rx_step B w1) = fst (rx_step B w2)
  /\ strong (snd (rx_step B w1)) (snd (rx_step B w2))
  /\ match fst (rx_step B w1) with Some x => qok fl x | None => True end.
Proof.
  intros (Hc & Hp). destruct Hc as [p1 p2 tr tie1 tie2 e now].
  cbn [wsrv sparser] in Hp. unfold rx_step, log, with_parser.
  cbn [wsrv wenv wnow wtrace wtie sparser sreg sretries sdelay].
  destruct (receive B e) as [[data dt] e'].
  assert (Hp' : psim fl (match nonempty data with Some d => process p1 d | None => p1 end)
                        (match nonempty data with Some d => process p2 d | None => p2 end)).
  { destruct (nonempty data) as [d|]; [apply psim_process|]; exact Hp. }
  destruct (psim_packet _ _ _ Hp') as (Hx & Hq & Hok).
  destruct (packet (match nonempty data with Some d => process p1 d | None => p1 end)) as [x1 q1].
  destruct (packet (match nonempty data with Some d => process p2 d | None => p2 end)) as [x2 q2].
  cbn [fst snd] in Hx, Hq, Hok |- *. subst x2.
  split; [reflexivity|]. split; [|exact Hok].
  split; [|exact Hq]. rewrite <- !app_assoc. constructor.
Qed.

(* ---- _wait ---- *)
Lemma wait_sim : forall fuel deadline w1 w2, strong w1 w2 ->
  fst (wait B sk fuel deadline w1) = fst (wait B sk fuel deadline w2)
  /\ strong (snd (wait B sk fuel deadline w1)) (snd (wait B sk fuel deadline w2)).
Proof.
  induction fuel as [|k IH]; intros deadline w1 w2 Hs.
  - cbn [wait fst snd]. split; [reflexivity | exact Hs].
  - rewrite !wait_S. pose proof (strong_tick deadline _ _ Hs) as Ht.
    rewrite (common_now _ _ (proj1 Hs)).
    destruct (wnow w2 <? deadline); [|cbn [fst snd]; split; [reflexivity | exact Ht]].
    destruct (rx_step_sim _ _ Ht) as (Hx & Hs' & Hok).
    destruct (rx_step B (tick deadline w1)) as [x w1'].
    destruct (rx_step B (tick deadline w2)) as [x2 w2'].
    cbn [fst snd] in Hx, Hs', Hok. subst x2.
    destruct x as [[c i pl|]|]; try (apply IH, Hs').
    destruct (is_crc_marker (Pkt c i pl)); [apply IH, Hs'|].
    rewrite (common_reg1 _ _ (proj1 Hs')), (common_reg2 _ _ (proj1 Hs')).
    cbn [qok] in Hok. rewrite <- (Hlook _ Hok).
    destruct (reg_lookup R1 (c, i)) as [[name rk]|]; [|apply IH, Hs'].
    destruct (build_with_data sk rk pl) as [d|ex]; [|apply IH, Hs'].
    cbn [fst snd]. split; [reflexivity | exact Hs'].
Qed.

(* ---- poll: one attempt ---- *)
Lemma poll_phase_sim : forall fuel req ack resp deadline w1 w2, strong w1 w2 ->
  fst (poll_phase B sk fuel req ack resp deadline w1)
  = fst (poll_phase B sk fuel req ack resp deadline w2)
  /\ strong (snd (poll_phase B sk fuel req ack resp deadline w1))
            (snd (poll_phase B sk fuel req ack resp deadline w2)).
Proof.
  induction fuel as [|k IH]; intros req ack resp deadline w1 w2 Hs.
  - cbn [poll_phase fst snd]. split; [reflexivity | exact Hs].
  - cbn [poll_phase].
    destruct (wait_sim (S k) deadline _ _ Hs) as [Hf Hs'].
    destruct (wait B sk (S k) deadline w1) as [o1 w1'].
    destruct (wait B sk (S k) deadline w2) as [o2 w2'].
    cbn [fst snd] in Hf, Hs'. subst o2.
    destruct o1 as [[f|]|]; [|cbn [fst snd]; split; [reflexivity | exact Hs'] ..].
    destruct (negb ack).
    + destruct (cid_eqb (rf_cid f) req); [|apply IH, Hs'].
      destruct (fst req =? CLASS_CFG); [|cbn [fst snd]; split; [reflexivity | exact Hs']].
      rewrite (common_now _ _ (proj1 Hs')), (common_dl1 _ _ (proj1 Hs')),
        (common_dl2 _ _ (proj1 Hs')).
      apply IH, Hs'.
    + destruct (check_ack_nak req f); try (apply IH, Hs').
      destruct resp as [r|]; cbn [fst snd]; split; first [reflexivity | exact Hs'].
Qed.

(* ---- poll: all attempts ---- *)
Lemma poll_attempts_sim : forall n fuel req payload w1 w2, weak w1 w2 ->
  fst (poll_attempts B sk fuel n req payload w1) = fst (poll_attempts B sk fuel n req payload w2)
  /\ weak (snd (poll_attempts B sk fuel n req payload w1))
          (snd (poll_attempts B sk fuel n req payload w2)).
Proof.
  induction n as [|n IH]; intros fuel req payload w1 w2 Hw.
  - cbn [poll_attempts fst snd]. split; [reflexivity | exact Hw].
  - cbn [poll_attempts].
    destruct (weak_send req payload _ _ (weak_flush _ _ Hw)) as [Hok Hw'].
    destruct (send B (do_flush B w1) req payload) as [ok1 w1'].
    destruct (send B (do_flush B w2) req payload) as [ok2 w2'].
    cbn [fst snd] in Hok, Hw'. subst ok2.
    destruct ok1; [|apply IH, Hw'].
    pose proof (strong_purge _ _ Hw') as Hs.
    rewrite (common_now _ _ (proj1 Hs)), (common_dl1 _ _ (proj1 Hs)),
      (common_dl2 _ _ (proj1 Hs)).
    destruct (poll_phase_sim fuel req false None (wnow (purge w2') + dl) _ _ Hs) as [Hf Hs'].
    destruct (poll_phase B sk fuel req false None (wnow (purge w2') + dl) (purge w1')) as [a1 v1].
    destruct (poll_phase B sk fuel req false None (wnow (purge w2') + dl) (purge w2')) as [a2 v2].
    cbn [fst snd] in Hf, Hs'. subst a2.
    destruct a1 as [f| |].
    + cbn [fst snd]. split; [reflexivity | apply strong_weak, Hs'].
    + apply IH, weak_recover, strong_weak, Hs'.
    + cbn [fst snd]. split; [reflexivity | apply strong_weak, Hs'].
Qed.

(* ---- set / set_mga: all attempts ---- *)
Lemma set_attempts_sim : forall n fuel mga req payload w1 w2, weak w1 w2 ->
  fst (set_attempts B sk fuel n mga req payload w1)
  = fst (set_attempts B sk fuel n mga req payload w2)
  /\ weak (snd (set_attempts B sk fuel n mga req payload w1))
          (snd (set_attempts B sk fuel n mga req payload w2)).
Proof.
  induction n as [|n IH]; intros fuel mga req payload w1 w2 Hw.
  - cbn [set_attempts fst snd]. split; [reflexivity | exact Hw].
  - cbn [set_attempts].
    destruct (weak_send req payload _ _ (weak_flush _ _ Hw)) as [Hok Hw'].
    destruct (send B (do_flush B w1) req payload) as [ok1 w1'].
    destruct (send B (do_flush B w2) req payload) as [ok2 w2'].
    cbn [fst snd] in Hok, Hw'. subst ok2.
    destruct ok1; [|apply IH, Hw'].
    pose proof (strong_purge _ _ Hw') as Hs.
    rewrite (common_now _ _ (proj1 Hs)), (common_dl1 _ _ (proj1 Hs)),
      (common_dl2 _ _ (proj1 Hs)).
    destruct (wait_sim fuel (wnow (purge w2') + dl) _ _ Hs) as [Hf Hs'].
    destruct (wait B sk fuel (wnow (purge w2') + dl) (purge w1')) as [a1 v1].
    destruct (wait B sk fuel (wnow (purge w2') + dl) (purge w2')) as [a2 v2].
    cbn [fst snd] in Hf, Hs'. subst a2.
    destruct a1 as [[f|]|].
    + destruct (if mga then check_mga f
                else match check_ack_nak req f with IsAck | IsNak => true | IsOther => false end).
      * cbn [fst snd]. split; [reflexivity | apply strong_weak, Hs'].
      * apply IH, strong_weak, Hs'.
    + apply IH, weak_recover, strong_weak, Hs'.
    + cbn [fst snd]. split; [reflexivity | apply strong_weak, Hs'].
Qed.

End Sim.

(* ------------------------------------------------------------------ registries *)
Definition reg_after (o : rop) (rq : request) (r : registry) : registry :=
  match o with
  | RPoll => reg_register r (rq_cid rq) (rq_resp rq)
  | _ => r
  end.

Lemma reg_lookup_register r c x c' :
  reg_lookup (reg_register r c x) c' = if cid_eqb c' c then Some x else reg_lookup r c'.
Proof. reflexivity. Qed.

Lemma reg_agree_refl r : reg_agree r r.
Proof. unfold reg_agree. auto. Qed.

Lemma reg_agree_trans r1 r2 r3 : reg_agree r1 r2 -> reg_agree r2 r3 -> reg_agree r1 r3.
Proof.
  intros (A1 & A2 & A3) (B1 & B2 & B3). unfold reg_agree.
  rewrite A1, A2, A3. auto.
Qed.

Lemma reg_agree_register r1 r2 c x :
  reg_agree r1 r2 -> reg_agree (reg_register r1 c x) (reg_register r2 c x).
Proof.
  intros (A1 & A2 & A3). unfold reg_agree. rewrite !reg_lookup_register.
  rewrite A1, A2, A3. auto.
Qed.

Lemma reg_agree_after o rq r1 r2 :
  reg_agree r1 r2 -> reg_agree (reg_after o rq r1) (reg_after o rq r2).
Proof.
  intros H. destruct o; cbn [reg_after]; try exact H. apply reg_agree_register, H.
Qed.

Lemma reg_agree_keeps r c x :
  ~ In c [CID_ACK; CID_NAK; CID_MGA_ACK] -> reg_agree (reg_register r c x) r.
Proof.
  intros Hn. unfold reg_agree. rewrite !reg_lookup_register.
  rewrite !cid_eqb_neq; [auto | | | ];
    intros Heq; apply Hn; rewrite <- Heq; cbn [In]; auto.
Qed.

(* lookups agree on the filter of each request kind *)
Lemma look_poll r1 r2 c x :
  reg_agree r1 r2 ->
  forall c', in_filter (Some (if fst c =? CLASS_CFG then [c; CID_ACK; CID_NAK] else [c])) c' = true ->
  reg_lookup (reg_register r1 c x) c' = reg_lookup (reg_register r2 c x) c'.
Proof.
  intros (A1 & A2 & A3) c' Hin. rewrite !reg_lookup_register.
  destruct (cid_eqb c' c) eqn:Ec; [reflexivity|].
  destruct (fst c =? CLASS_CFG); cbn [in_filter existsb] in Hin; rewrite Ec in Hin;
    cbn [orb] in Hin; [|discriminate Hin].
  destruct (cid_eqb c' CID_ACK) eqn:Ea.
  - apply cid_eqb_true in Ea. subst c'. exact A1.
  - destruct (cid_eqb c' CID_NAK) eqn:En; [|discriminate Hin].
    apply cid_eqb_true in En. subst c'. exact A2.
Qed.

Lemma look_set r1 r2 :
  reg_agree r1 r2 ->
  forall c', in_filter (Some [CID_ACK; CID_NAK]) c' = true -> reg_lookup r1 c' = reg_lookup r2 c'.
Proof.
  intros (A1 & A2 & A3) c' Hin. cbn [in_filter existsb] in Hin.
  destruct (cid_eqb c' CID_ACK) eqn:Ea.
  - apply cid_eqb_true in Ea. subst c'. exact A1.
  - destruct (cid_eqb c' CID_NAK) eqn:En; [|discriminate Hin].
    apply cid_eqb_true in En. subst c'. exact A2.
Qed.

Lemma look_mga r1 r2 :
  reg_agree r1 r2 ->
  forall c', in_filter (Some [CID_MGA_ACK]) c' = true -> reg_lookup r1 c' = reg_lookup r2 c'.
Proof.
  intros (A1 & A2 & A3) c' Hin. cbn [in_filter existsb] in Hin.
  destruct (cid_eqb c' CID_MGA_ACK) eqn:Ea; [|discriminate Hin].
  apply cid_eqb_true in Ea. subst c'. exact A3.
Qed.

(* ------------------------------------------------------------------ one request *)
(* The simulation, with the exact server configuration after the request. *)
Lemma request_sim : forall E (B : backend E) sk fuel o rq w1 w2,
  srv_equiv (wsrv w1) (wsrv w2) -> wenv w1 = wenv w2 -> wnow w1 = wnow w2 ->
  let r1 := do_request B sk fuel o rq w1 in
  let r2 := do_request B sk fuel o rq w2 in
  fst r1 = fst r2
  /\ post (wtrace w1) (wtrace w2)
          (reg_after o rq (sreg (wsrv w1))) (reg_after o rq (sreg (wsrv w2)))
          (sretries (wsrv w2)) (sdelay (wsrv w2)) (snd r1) (snd r2).
Proof.
  intros E B sk fuel o rq w1 w2 (Hn & Hd & Hagree) He Hnow r1 r2. subst r1 r2.
  destruct w1 as [[p1 g1 n1 d1] e1 now1 tr1 tie1], w2 as [[p2 g2 n2 d2] e2 now2 tr2 tie2].
  cbn [wsrv wenv wnow wtrace sreg sretries sdelay] in Hn, Hd, Hagree, He, Hnow |- *.
  subst n1 d1 e1 now1.
  destruct o; cbn [do_request reg_after].
  - (* poll *)
    unfold poll, with_reg, with_parser.
    cbn [wsrv wenv wnow wtrace wtie sparser sreg sretries sdelay].
    set (fl := if fst (rq_cid rq) =? CLASS_CFG then [rq_cid rq; CID_ACK; CID_NAK] else [rq_cid rq]).
    set (G1 := reg_register g1 (rq_cid rq) (rq_resp rq)).
    set (G2 := reg_register g2 (rq_cid rq) (rq_resp rq)).
    assert (Hlook : forall c, in_filter (Some fl) c = true -> reg_lookup G1 c = reg_lookup G2 c)
      by (apply look_poll, Hagree).
    assert (Hw : weak tr1 tr2 G1 G2 n2 d2 fl
                   (mkWorld (mkSrv (set_filters p1 fl) G1 n2 d2) e2 now2 tr1 tie1)
                   (mkWorld (mkSrv (set_filters p2 fl) G2 n2 d2) e2 now2 tr2 tie2)).
    { split; [apply common_init | split; reflexivity]. }
    destruct (pack_body (rq_body rq)) as [payload|ex].
    + destruct (poll_attempts_sim B sk tr1 tr2 G1 G2 n2 d2 fl Hlook (S n2) fuel (rq_cid rq)
                  payload _ _ Hw) as [Hf Hw'].
      split; [exact Hf | apply common_post, Hw'].
    + cbn [fst snd]. split; [reflexivity | apply common_post, Hw].
  - (* set *)
    unfold set, with_parser.
    cbn [wsrv wenv wnow wtrace wtie sparser sreg sretries sdelay].
    set (fl := [CID_ACK; CID_NAK]).
    assert (Hlook : forall c, in_filter (Some fl) c = true -> reg_lookup g1 c = reg_lookup g2 c)
      by (apply look_set, Hagree).
    assert (Hw : weak tr1 tr2 g1 g2 n2 d2 fl
                   (mkWorld (mkSrv (set_filters p1 fl) g1 n2 d2) e2 now2 tr1 tie1)
                   (mkWorld (mkSrv (set_filters p2 fl) g2 n2 d2) e2 now2 tr2 tie2)).
    { split; [apply common_init | split; reflexivity]. }
    destruct (pack_body (rq_body rq)) as [payload|ex].
    + destruct (set_attempts_sim B sk tr1 tr2 g1 g2 n2 d2 fl Hlook (S n2) fuel false (rq_cid rq)
                  payload _ _ Hw) as [Hf Hw'].
      split; [exact Hf | apply common_post, Hw'].
    + cbn [fst snd]. split; [reflexivity | apply common_post, Hw].
  - (* set_mga *)
    unfold set_mga, set_filter, with_parser.
    cbn [wsrv wenv wnow wtrace wtie sparser sreg sretries sdelay].
    set (fl := [CID_MGA_ACK]).
    assert (Hlook : forall c, in_filter (Some fl) c = true -> reg_lookup g1 c = reg_lookup g2 c)
      by (apply look_mga, Hagree).
    assert (Hw : weak tr1 tr2 g1 g2 n2 d2 fl
                   (mkWorld (mkSrv (set_filters p1 fl) g1 n2 d2) e2 now2 tr1 tie1)
                   (mkWorld (mkSrv (set_filters p2 fl) g2 n2 d2) e2 now2 tr2 tie2)).
    { split; [apply common_init | split; reflexivity]. }
    destruct (pack_body (rq_body rq)) as [payload|ex].
    + destruct (set_attempts_sim B sk tr1 tr2 g1 g2 n2 d2 fl Hlook (S n2) fuel true (rq_cid rq)
                  payload _ _ Hw) as [Hf Hw'].
      split; [exact Hf | apply common_post, Hw'].
    + cbn [fst snd]. split; [reflexivity | apply common_post, Hw].
  - (* fire and forget: the parser is never touched *)
    unfold fire_and_forget.
    assert (Hc : common tr1 tr2 g1 g2 n2 d2
                   (mkWorld (mkSrv p1 g1 n2 d2) e2 now2 tr1 tie1)
                   (mkWorld (mkSrv p2 g2 n2 d2) e2 now2 tr2 tie2)) by apply common_init.
    destruct (pack_body (rq_body rq)) as [payload|ex].
    + destruct (common_send B tr1 tr2 g1 g2 n2 d2 (rq_cid rq) payload _ _ Hc) as [Hok Hc'].
      destruct (send B _ (rq_cid rq) payload) as [ok1 v1].
      destruct (send B _ (rq_cid rq) payload) as [ok2 v2].
      cbn [fst snd] in Hok, Hc' |- *. split; [reflexivity | apply common_post, Hc'].
    + cbn [fst snd]. split; [reflexivity | apply common_post, Hc].
Qed.

Theorem request_state_indep : forall E (B : backend E) sk fuel o rq w1 w2,
  srv_equiv (wsrv w1) (wsrv w2) -> wenv w1 = wenv w2 -> wnow w1 = wnow w2 ->
  let r1 := do_request B sk fuel o rq w1 in
  let r2 := do_request B sk fuel o rq w2 in
  fst r1 = fst r2
  /\ new_events w1 (snd r1) = new_events w2 (snd r2)
  /\ wenv (snd r1) = wenv (snd r2) /\ wnow (snd r1) = wnow (snd r2)
  /\ srv_equiv (wsrv (snd r1)) (wsrv (snd r2)).
Proof.
  intros E B sk fuel o rq w1 w2 Heq He Hnow r1 r2.
  destruct (request_sim E B sk fuel o rq w1 w2 Heq He Hnow)
    as (Hf & Htr & He' & Hnow' & Hg1 & Hg2 & Hn1 & Hn2 & Hd1 & Hd2).
  fold r1 r2 in Hf, Htr, He', Hnow', Hg1, Hg2, Hn1, Hn2, Hd1, Hd2.
  split; [exact Hf|]. split; [exact Htr|]. split; [exact He'|]. split; [exact Hnow'|].
  unfold srv_equiv. rewrite Hn1, Hn2, Hd1, Hd2, Hg1, Hg2.
  split; [reflexivity|]. split; [reflexivity|].
  apply reg_agree_after. exact (proj2 (proj2 Heq)).
Qed.

(* ------------------------------------------------------------------ sequences *)
Lemma srv_equiv_refl s : srv_equiv s s.
Proof. unfold srv_equiv. auto using reg_agree_refl. Qed.

(* what a request does to the server configuration *)
Lemma request_cfg : forall E (B : backend E) sk fuel o rq w,
  let w' := snd (do_request B sk fuel o rq w) in
  sreg (wsrv w') = reg_after o rq (sreg (wsrv w))
  /\ sretries (wsrv w') = sretries (wsrv w) /\ sdelay (wsrv w') = sdelay (wsrv w).
Proof.
  intros E B sk fuel o rq w w'.
  destruct (request_sim E B sk fuel o rq w w (srv_equiv_refl _) eq_refl eq_refl)
    as (_ & _ & _ & _ & Hg1 & _ & Hn1 & _ & Hd1 & _).
  auto.
Qed.

Lemma request_keeps_equiv : forall E (B : backend E) sk fuel o rq w s,
  keeps_base (o, rq) -> srv_equiv (wsrv w) s ->
  srv_equiv (wsrv (snd (do_request B sk fuel o rq w))) s.
Proof.
  intros E B sk fuel o rq w s Hk (Hn & Hd & Hg).
  destruct (request_cfg E B sk fuel o rq w) as (Hg' & Hn' & Hd').
  unfold srv_equiv. rewrite Hg', Hn', Hd'.
  split; [exact Hn|]. split; [exact Hd|].
  destruct o; cbn [reg_after]; try exact Hg.
  apply reg_agree_trans with (r2 := sreg (wsrv w)); [|exact Hg].
  apply reg_agree_keeps. apply Hk. reflexivity.
Qed.

Lemma run_seq_equiv : forall E (B : backend E) sk fuel rs w s,
  Forall keeps_base rs -> srv_equiv (wsrv w) s ->
  srv_equiv (wsrv (run_seq B sk fuel rs w)) s.
Proof.
  intros E B sk fuel rs. induction rs as [|[o rq] t IH]; intros w s Hk Hs.
  - exact Hs.
  - cbn [run_seq]. inversion Hk as [|x l Hx Ht]; subst x l.
    apply IH; [exact Ht|]. apply request_keeps_equiv; assumption.
Qed.

Theorem sequence_indep : forall E (B : backend E) sk fuel rs o rq retries delay e now,
  Forall keeps_base rs ->
  let w0 := mkWorld (new_srv retries delay) e now [] false in
  let wi := run_seq B sk fuel rs w0 in
  let alone := mkWorld (new_srv retries delay) (wenv wi) (wnow wi) [] false in
  let r1 := do_request B sk fuel o rq wi in
  let r2 := do_request B sk fuel o rq alone in
  fst r1 = fst r2 /\ new_events wi (snd r1) = new_events alone (snd r2)
  /\ wenv (snd r1) = wenv (snd r2) /\ wnow (snd r1) = wnow (snd r2).
Proof.
  intros E B sk fuel rs o rq retries delay e now Hk w0 wi alone r1 r2.
  assert (Heq : srv_equiv (wsrv wi) (wsrv alone)).
  { subst wi alone. cbn [wsrv]. apply run_seq_equiv; [exact Hk|].
    subst w0. cbn [wsrv]. apply srv_equiv_refl. }
  destruct (request_state_indep E B sk fuel o rq wi alone Heq eq_refl eq_refl)
    as (H1 & H2 & H3 & H4 & _).
  auto.
Qed.

Print Assumptions request_state_indep.
Print Assumptions sequence_indep.
