(* Proofs about the NMEA parser model: the frame counter equals the number of sentences with a
   valid checksum (count_sentences), under every chunking; restart() returns to a boundary. *)
From Coq Require Import Lia ZifyBool ZifyN ZifyNat.
From Ubx Require Import Base ParserNmea.
Ltac Zify.zify_post_hook ::= Z.to_euclidean_division_equations.

(* ---- to_bin ---------------------------------------------------------------- *)

Lemma to_bin_spec : forall d v, to_bin d = Some v <->
  (48 <= d <= 57 /\ v = d - 48) \/ (97 <= d <= 102 /\ v = d - 87) \/ (65 <= d <= 70 /\ v = d - 55).
Proof.
  intros d v. unfold to_bin.
  destruct ((48 <=? d) && (d <=? 57)) eqn:H1;
    [| destruct ((97 <=? d) && (d <=? 102)) eqn:H2;
       [| destruct ((65 <=? d) && (d <=? 70)) eqn:H3]];
    (split; intro H;
     [ try discriminate H; injection H as H; lia
     | try (exfalso; lia); f_equal; lia ]).
Qed.

Lemma to_bin_dollar : to_bin DOLLAR = None.
Proof. reflexivity. Qed.

(* ---- body_xor -------------------------------------------------------------- *)

Lemma body_xor_app : forall body acc rest,
  Forall (fun d => d <> DOLLAR /\ d <> STAR) body ->
  body_xor acc (body ++ STAR :: rest) = Some (fold_left N.lxor body acc, rest).
Proof.
  induction body as [| d body IH]; intros acc rest HF.
  - reflexivity.
  - inversion HF as [| d' body' [Hd Hs] HF' ]; subst.
    cbn [app body_xor fold_left].
    destruct (d =? DOLLAR) eqn:E1; [apply N.eqb_eq in E1; contradiction |].
    destruct (d =? STAR) eqn:E2; [apply N.eqb_eq in E2; contradiction |].
    apply IH; assumption.
Qed.

(* what the two hex digits after the '*' must satisfy *)
Definition tail_ok (r : option (N * bytes)) : bool :=
  match r with
  | Some (x, h1 :: h2 :: _) =>
      match to_bin h1, to_bin h2 with
      | Some a, Some b => 16 * a + b =? x
      | _, _ => false
      end
  | _ => false
  end.

Lemma sentence_at_tail l : sentence_at l = tail_ok (body_xor 0 l).
Proof. reflexivity. Qed.

Lemma sentence_at_spec : forall body h1 h2 rest a b,
  Forall (fun d => d <> DOLLAR /\ d <> STAR) body ->
  to_bin h1 = Some a -> to_bin h2 = Some b ->
  sentence_at (body ++ STAR :: h1 :: h2 :: rest) = (16 * a + b =? fold_left N.lxor body 0).
Proof.
  intros body h1 h2 rest a b HF Ha Hb.
  rewrite sentence_at_tail, body_xor_app by assumption.
  cbn [tail_ok]. rewrite Ha, Hb. reflexivity.
Qed.

(* ---- the counter ----------------------------------------------------------- *)

(* Will the sentence currently being received (state st, checksum chk, running xor x) be
   counted when the remaining stream is l? *)
Definition pending (st : nstate) (chk x : N) (l : bytes) : bool :=
  match st with
  | WAIT_SYNC | LINEEND => false
  | NDATA => tail_ok (body_xor x l)
  | CHKSUM1 => tail_ok (Some (x, l))
  | CHKSUM2 =>
      match l with
      | h2 :: _ => match to_bin h2 with Some b => chk + b =? x | None => false end
      | [] => false
      end
  end.

Definition b2n (b : bool) : N := if b then 1 else 0.

Lemma pending_nil st chk x : pending st chk x [] = false.
Proof. destruct st; reflexivity. Qed.

Lemma pending_dollar st chk x d t : (d =? DOLLAR) = true -> pending st chk x (d :: t) = false.
Proof.
  intros Hd. destruct st; cbn [pending tail_ok body_xor]; try reflexivity.
  - rewrite Hd. reflexivity.
  - apply N.eqb_eq in Hd. subst d. rewrite to_bin_dollar.
    destruct t; reflexivity.
  - apply N.eqb_eq in Hd. subst d. rewrite to_bin_dollar. reflexivity.
Qed.

Lemma count_cons d t :
  count_sentences (d :: t) = b2n ((d =? DOLLAR) && sentence_at t) + count_sentences t.
Proof. reflexivity. Qed.

Lemma shiftl4 v : N.shiftl v 4 = 16 * v.
Proof. rewrite N.shiftl_mul_pow2. change (2 ^ 4) with 16. apply N.mul_comm. Qed.

Lemma count_gen : forall l st chk x rx,
  nrx (nprocess (mkN st chk x rx) l) = rx + b2n (pending st chk x l) + count_sentences l.
Proof.
  induction l as [| d t IH]; intros st chk x rx.
  - rewrite pending_nil. cbn [nprocess fold_left nrx count_sentences b2n]. lia.
  - unfold nprocess in *. cbn [fold_left]. rewrite count_cons.
    unfold nstep. cbn [nst nchk nxor nrx].
    destruct (d =? DOLLAR) eqn:Hd.
    + rewrite IH, pending_dollar by assumption.
      cbn [pending andb]. rewrite sentence_at_tail. cbn [b2n]. lia.
    + cbn [andb b2n].
      destruct st.
      * (* WAIT_SYNC *) rewrite IH. reflexivity.
      * (* NDATA *)
        cbn [pending body_xor]. rewrite Hd.
        destruct (d =? STAR) eqn:Hs; rewrite IH; reflexivity.
      * (* CHKSUM1 *)
        cbn [pending tail_ok].
        destruct (to_bin d) as [v |] eqn:Hv; rewrite IH.
        -- cbn [pending]. destruct t as [| h2 t']; [reflexivity |].
           destruct (to_bin h2) as [b |]; [| reflexivity].
           rewrite shiftl4. reflexivity.
        -- cbn [pending]. destruct t as [| h2 t']; reflexivity.
      * (* CHKSUM2 *)
        cbn [pending].
        destruct (to_bin d) as [v |] eqn:Hv.
        -- destruct (chk + v =? x) eqn:Hc; rewrite IH; cbn [pending b2n]; lia.
        -- rewrite IH. reflexivity.
      * (* LINEEND *)
        destruct (d =? NL) eqn:Hn; rewrite IH; reflexivity.
Qed.

Lemma count_gen_p p l :
  nrx (nprocess p l) = nrx p + b2n (pending (nst p) (nchk p) (nxor p) l) + count_sentences l.
Proof. destruct p as [st chk x rx]. apply count_gen. Qed.

Lemma nmea_count_from_idle : forall p s, nst p = WAIT_SYNC ->
  nrx (nprocess p s) = nrx p + count_sentences s.
Proof.
  intros p s Hst. rewrite count_gen_p, Hst. cbn [pending b2n]. lia.
Qed.

Lemma nmea_count_exact : forall s, nrx (nprocess nfresh s) = count_sentences s.
Proof.
  intros s. rewrite nmea_count_from_idle by reflexivity. reflexivity.
Qed.

(* the same holds when the parser waits for the end of a line *)
Lemma nmea_count_from_lineend : forall p s, nst p = LINEEND ->
  nrx (nprocess p s) = nrx p + count_sentences s.
Proof.
  intros p s Hst. rewrite count_gen_p, Hst. cbn [pending b2n]. lia.
Qed.

(* ---- chunking -------------------------------------------------------------- *)

Lemma chunk_indep_nmea : forall p a b, nprocess (nprocess p a) b = nprocess p (a ++ b).
Proof. intros p a b. unfold nprocess. symmetry. apply fold_left_app. Qed.

Lemma chunks_indep_nmea : forall chunks p, fold_left nprocess chunks p = nprocess p (concat chunks).
Proof.
  induction chunks as [| c cs IH]; intros p.
  - reflexivity.
  - cbn [fold_left concat]. rewrite IH, chunk_indep_nmea. reflexivity.
Qed.

Lemma nmea_count_chunked : forall chunks,
  nrx (fold_left nprocess chunks nfresh) = count_sentences (concat chunks).
Proof. intros chunks. rewrite chunks_indep_nmea. apply nmea_count_exact. Qed.

(* ---- restart --------------------------------------------------------------- *)

Lemma restart_fresh_nmea : forall p s,
  nrx (nprocess (nrestart p) s) = nrx p + nrx (nprocess nfresh s).
Proof.
  intros p s. rewrite nmea_count_exact.
  rewrite nmea_count_from_idle by reflexivity. reflexivity.
Qed.
