(* C06b (known finding F11): the gpsd backend's _flush_input() is the base class's no-op. One receiver
   behaviour, two backends: attempt 1 is answered - after its waiting period - by the first 10 bytes of a
   44-byte frame; attempt 2 is answered correctly and in time. On script_backend (flush drops pending input)
   the poll returns the answer after 2 successful transmissions; on gpsd_script_backend (flush = identity)
   the stale bytes are parsed after the second transmission, the answer is swallowed as payload of the stale
   frame and the poll returns nothing, also after 2 successful transmissions. Evaluated runs. *)
From Ubx Require Import Fields Base Checksum Frame ParserUbx CfgKeys Request ScriptBackend Backends LineBackend.
Open Scope N_scope.

(* a MON-VER style non-CFG poll *)
Definition c06b_rq : request := mkRequest (10, 4) (BFields []) ("UbxMonVer"%string, RK (KFixed [])).
(* its answer: [181; 98; 10; 4; 0; 0; 14; 52] *)
Definition c06b_answer : bytes := fst (to_bytes (new_frame 10 4 [])).
(* the head of a 44-byte frame (6 header bytes + 4 of 36 payload bytes): [181; 98; 1; 7; 36; 0; 0; 0; 0; 0] *)
Definition c06b_stale : bytes := firstn 10 (fst (to_bytes (new_frame 1 7 (repeat 0 36)))).
(* attempt 1: silence for 120 ms (> delay 100 ms), then the stale bytes; attempt 2: the answer after 1 ms *)
Definition c06b_script : script :=
  mkScript [] [(true, [(None, 120); (Some c06b_stale, 1)]); (true, [(Some c06b_answer, 1)])] 13.
Definition c06b_srv := new_srv 1 100.

Lemma unread_input_hides_answer :
  exists sk fuel rq srv0 s f,
    sretries srv0 = 1%nat
    /\ fst (do_request script_backend sk fuel RPoll rq (mkWorld srv0 s 0 [] false)) = Return (Some f)
    /\ rf_cid f = rq_cid rq
    /\ List.length (tx_ok_frames (wtrace (snd (do_request script_backend sk fuel RPoll rq (mkWorld srv0 s 0 [] false))))) = 2%nat
    /\ fst (do_request gpsd_script_backend sk fuel RPoll rq (mkWorld srv0 s 0 [] false)) = Return None
    /\ List.length (tx_ok_frames (wtrace (snd (do_request gpsd_script_backend sk fuel RPoll rq (mkWorld srv0 s 0 [] false))))) = 2%nat.
Proof.
  exists [], 60%nat, c06b_rq, c06b_srv, c06b_script, (mkRFrame "UbxMonVer" (10, 4) [] (DFields [])).
  repeat split; vm_compute; reflexivity.
Qed.
