(* From "the regenerated table entry matches the oracle" to "the message decodes to the values at
   the oracle's offsets", for every payload and block count. *)
From Ubx Require Import Fields Base FieldsSpec UbloxSpec FieldsP.

Definition gentry := (string * (N * N) * string * mkind)%type.

Lemma matches_lookup (g : gentry) :
  msg_matches g = true ->
  exists c' nm' u, lookup_spec (fst (fst (fst g))) ublox = Some (c', nm', u)
    /\ fst (snd (fst (fst g))) = fst c' /\ snd (snd (fst (fst g))) = snd c'
    /\ snd (fst g) = nm' /\ kind_matches (snd g) u = true.
Proof.
  destruct g as [[[n c] nm] k]. cbn [msg_matches fst snd].
  destruct (lookup_spec n ublox) as [[[c' nm'] u]|] eqn:E; [|discriminate].
  intros H. repeat (apply andb_true_iff in H; destruct H as [H ?]).
  exists c', nm', u. repeat split; auto.
  - apply N.eqb_eq; assumption.
  - apply N.eqb_eq; assumption.
  - apply String.eqb_eq; assumption.
Qed.

(* Fixed messages *)
Theorem table_fixed_decodes (tbl : list gentry) :
  forallb msg_matches tbl = true ->
  forall n c nm l data,
    In (n, c, nm, KFixed l) tbl ->
    (size l <= length data)%nat -> ch_valid l 0 data = true ->
    decode (KFixed l) data = Ok (spec_decode l 0 data)
    /\ exists c' nm' fs, lookup_spec n ublox = Some (c', nm', UFixed fs)
         /\ fspecs_eqb (layout_offsets l 0) fs = true /\ c = c' /\ nm = nm'.
Proof.
  intros Hall n c nm l data Hin Hlen Hch.
  rewrite forallb_forall in Hall. specialize (Hall _ Hin).
  destruct (matches_lookup _ Hall) as (c' & nm' & u & Hl & Hc1 & Hc2 & Hnm & Hk).
  cbn [fst snd] in *.
  destruct u as [fs|? ? ? ? ?|]; cbn [kind_matches] in Hk; try discriminate.
  apply andb_true_iff in Hk. destruct Hk as [Hk Hu].
  apply andb_true_iff in Hk. destruct Hk as [Hf Hw].
  split.
  - apply decode_fixed; assumption.
  - exists c', nm', fs. repeat split; auto.
    destruct c, c'; cbn in *; subst; reflexivity.
Qed.

(* Count-prefixed messages, any block count *)
Theorem table_counted_decodes (tbl : list gentry) :
  forallb msg_matches tbl = true ->
  forall n c nm hdr cnt maxc blk data k,
    In (n, c, nm, KCounted hdr cnt maxc blk) tbl ->
    getf (spec_decode hdr 0 data) cnt = Some (VInt (Z.of_nat k)) ->
    match maxc with Some m => (Z.of_nat k <= Z.of_N m)%Z | None => True end ->
    (size (counted_layout hdr blk k) <= length data)%nat ->
    ch_valid (counted_layout hdr blk k) 0 data = true ->
    decode (KCounted hdr cnt maxc blk) data = Ok (spec_decode (counted_layout hdr blk k) 0 data)
    /\ exists c' nm' uh umax stride ublk,
         lookup_spec n ublox = Some (c', nm', UCounted uh cnt umax stride ublk)
         /\ fspecs_eqb (layout_offsets hdr 0) uh = true
         /\ fspecs_eqb (layout_offsets blk 0) ublk = true
         /\ size blk = stride /\ optN_eqb maxc umax = true.
Proof.
  intros Hall n c nm hdr cnt maxc blk data k Hin Hget Hmax Hlen Hch.
  rewrite forallb_forall in Hall. specialize (Hall _ Hin).
  destruct (matches_lookup _ Hall) as (c' & nm' & u & Hl & Hc1 & Hc2 & Hnm & Hk).
  cbn [fst snd] in *.
  destruct u as [fs|uh ucnt umax stride ublk|]; cbn [kind_matches] in Hk; try discriminate.
  repeat (apply andb_true_iff in Hk; destruct Hk as [Hk ?]).
  match goal with H : String.eqb cnt ucnt = true |- _ => apply String.eqb_eq in H; subst ucnt end.
  split.
  - apply decode_counted with (c := k); assumption.
  - exists c', nm', uh, umax, stride, ublk. repeat split; auto.
    apply Nat.eqb_eq; assumption.
Qed.

Theorem table_monver_decodes (tbl : list gentry) :
  forall n c nm data, In (n, c, nm, KMonVer) tbl ->
    (40 <= length data)%nat -> ch_valid (monver_layout (length data)) 0 data = true ->
    decode KMonVer data = Ok (spec_decode (monver_layout (length data)) 0 data).
Proof. intros n c nm data _ Hlen Hch. apply decode_monver; assumption. Qed.
