(* Rendering is total for every value the API can produce, and names every field (C19). *)
From Coq Require Import Lia ZifyBool ZifyN ZifyNat.
From Ubx Require Import Fields Base CfgKeys CfgKeysSpec Render.
#[local] Ltac Zify.zify_post_hook ::= Z.to_euclidean_division_equations.

Lemma bits3 v s : (field_bits v s 3 < 4)%nat.
Proof.
  unfold field_bits. change 3 with (N.ones 2). rewrite N.land_ones.
  assert (N.shiftr v s mod 2 ^ 2 < 4) by (apply N.mod_lt; discriminate). lia.
Qed.
Lemma bits7 v s : (field_bits v s 7 < 8)%nat.
Proof.
  unfold field_bits. change 7 with (N.ones 3). rewrite N.land_ones.
  assert (N.shiftr v s mod 2 ^ 3 < 8) by (apply N.mod_lt; discriminate). lia.
Qed.

Lemma pick_ok t table i n : (n <= tlen t table)%nat -> (i < n)%nat -> pick t table i = Ok (TEntry table i).
Proof.
  intros H1 H2. unfold pick. destruct (Nat.ltb i (tlen t table)) eqn:E; [reflexivity|].
  apply Nat.ltb_ge in E. lia.
Qed.

Lemma tables_ok_spec t : tables_ok t = true ->
  (4 <= tlen t "charlen_str")%nat /\ (8 <= tlen t "parity_str")%nat /\ (4 <= tlen t "stopbits_str")%nat
  /\ (8 <= tlen t "status_strings")%nat /\ (4 <= tlen t "wt_init_strings")%nat
  /\ (8 <= tlen t "mnt_alg_strings")%nat /\ (4 <= tlen t "ins_init_strings")%nat
  /\ (4 <= tlen t "imu_init_strings")%nat /\ (4 <= tlen t "calib_strings")%nat
  /\ (4 <= tlen t "time_strings")%nat.
Proof.
  unfold tables_ok, needed. cbn [forallb fst snd]. intros H.
  repeat (apply andb_true_iff in H; destruct H as [?H H]).
  repeat match goal with X : Nat.leb _ _ = true |- _ => apply Nat.leb_le in X end.
  repeat split; assumption.
Qed.

(* every renderer succeeds on every value of the right Python type, whatever the cached byte *)
Theorem render_item_total t c name ty v cached :
  tables_ok t = true -> rvalue_ok ty v = true -> rcls_ok ty c = true ->
  exists toks, render_item t c name v cached = Ok toks /\ In (TField name) toks.
Proof.
  intros Ht Hv Hc. destruct (tables_ok_spec t Ht) as (T1 & T2 & T3 & T4 & T5 & T6 & T7 & T8 & T9 & T10).
  assert (Hint : (exists n, ty = TCh n) \/ exists z, v = VInt z).
  { destruct ty, v; cbn in Hv; try discriminate; eauto. }
  destruct c; cbn [render_item].
  - eexists; split; [reflexivity | left; reflexivity].
  - destruct Hint as [[n ->]|[z ->]]; [discriminate Hc|]. eexists; split; [reflexivity | left; reflexivity].
  - destruct Hint as [[n ->]|[z ->]]; [discriminate Hc|]. eexists; split; [reflexivity | left; reflexivity].
  - destruct Hint as [[n ->]|[z ->]]; [discriminate Hc|].
    rewrite (pick_ok t "charlen_str" _ 4 T1 (bits3 _ _)).
    rewrite (pick_ok t "parity_str" _ 8 T2 (bits7 _ _)).
    rewrite (pick_ok t "stopbits_str" _ 4 T3 (bits3 _ _)). cbn [bind].
    eexists; split; [reflexivity | left; reflexivity].
  - destruct Hint as [[n ->]|[z ->]]; [discriminate Hc|]. eexists; split; [reflexivity | left; reflexivity].
  - destruct Hint as [[n ->]|[z ->]]; [discriminate Hc|]. eexists; split; [reflexivity | left; reflexivity].
  - destruct Hint as [[n ->]|[z ->]]; [discriminate Hc|]. eexists; split; [reflexivity | left; reflexivity].
  - rewrite (pick_ok t "status_strings" _ 8 T4 (bits7 _ _)). cbn [bind].
    eexists; split; [reflexivity | left; reflexivity].
  - rewrite (pick_ok t "wt_init_strings" _ 4 T5 (bits3 _ _)).
    rewrite (pick_ok t "mnt_alg_strings" _ 8 T6 (bits7 _ _)).
    rewrite (pick_ok t "ins_init_strings" _ 4 T7 (bits3 _ _)). cbn [bind].
    eexists; split; [reflexivity | left; reflexivity].
  - rewrite (pick_ok t "imu_init_strings" _ 4 T8 (bits3 _ _)). cbn [bind].
    eexists; split; [reflexivity | left; reflexivity].
  - destruct Hint as [[n ->]|[z ->]]; [discriminate Hc|]. eexists; split; [reflexivity | left; reflexivity].
  - eexists; split; [reflexivity | left; reflexivity].
  - rewrite (pick_ok t "calib_strings" _ 4 T9 (bits3 _ _)).
    rewrite (pick_ok t "time_strings" _ 4 T10 (bits3 _ _)). cbn [bind].
    eexists; split; [reflexivity | left; reflexivity].
  - destruct Hint as [[n ->]|[z ->]]; [discriminate Hc|]. eexists; split; [reflexivity | left; reflexivity].
  - eexists; split; [reflexivity | left; reflexivity].
Qed.

Definition rfield_ok (f : string * fty * rcls * fval * N) : bool :=
  let '(_, ty, c, v, _) := f in rvalue_ok ty v && rcls_ok ty c.
Definition is_pad (ty : fty) : bool := match ty with TPad _ => true | _ => false end.

Theorem render_fields_total t fs :
  tables_ok t = true -> forallb rfield_ok fs = true ->
  exists toks, render_fields t fs = Ok toks
    /\ forall n ty c v k, In (n, ty, c, v, k) fs -> is_pad ty = false -> In (TField n) toks.
Proof.
  intros Ht. induction fs as [|[[[[n ty] c] v] k] r IH]; intros H.
  - exists []. split; [reflexivity | intros ? ? ? ? ? []].
  - cbn [forallb] in H. apply andb_true_iff in H. destruct H as [Hf Hr].
    unfold rfield_ok in Hf. apply andb_true_iff in Hf. destruct Hf as [Hv Hc].
    destruct (IH Hr) as (tr & Er & Hin).
    cbn [render_fields].
    destruct ty as [w|w|w|w|w];
      try (destruct (render_item_total t c n _ v k Ht Hv Hc) as (ti & Ei & Hi);
           rewrite Ei, Er; cbn [bind]; exists (ti ++ tr); split; [reflexivity|];
           intros n' ty' c' v' k' [Heq|Hin'] Hp;
           [inversion Heq; subst; apply in_or_app; left; exact Hi
           | apply in_or_app; right; eapply Hin; eassumption]).
    exists tr. split; [exact Er|].
    intros n' ty' c' v' k' [Heq|Hin'] Hp; [inversion Heq; subst; discriminate Hp | eapply Hin; eassumption].
Qed.

(* str(frame): contains the message name and every non-reserved field name; never raises *)
Theorem render_frame_total t name fs :
  tables_ok t = true -> forallb rfield_ok fs = true ->
  exists toks, render_frame t name fs = Ok toks /\ In (TName name) toks
    /\ forall n ty c v k, In (n, ty, c, v, k) fs -> is_pad ty = false -> In (TField n) toks.
Proof.
  intros Ht Hf. destruct (render_fields_total t fs Ht Hf) as (tr & Er & Hin).
  unfold render_frame. rewrite Er. cbn [bind]. eexists. split; [reflexivity|]. split; [left; reflexivity|].
  intros n ty c v k H1 H2. right. right. eapply Hin; eassumption.
Qed.

(* configuration items: valid size, group/item in any range the header accepts, a value present *)
Theorem render_cfg_total it :
  valid_bits (it_bits it) = true -> (it_bits it = 1%Z \/ it_value it <> CNone) ->
  exists toks, render_cfg it = Ok toks.
Proof.
  intros Hb Hv. unfold render_cfg, build_header.
  assert (Hs : exists s, size_from_bits (it_bits it) = Some s).
  { unfold valid_bits in Hb. unfold size_from_bits.
    destruct (it_bits it =? 1)%Z; [eauto|]. destruct (it_bits it =? 8)%Z; [eauto|].
    destruct (it_bits it =? 16)%Z; [eauto|]. destruct (it_bits it =? 32)%Z; [eauto|].
    destruct (it_bits it =? 64)%Z; [eauto | discriminate Hb]. }
  destruct Hs as [s ->]. cbn [bind].
  destruct (it_bits it =? 1)%Z eqn:E1; [eauto|].
  destruct Hv as [H1|Hn]; [rewrite H1 in E1; discriminate|].
  destruct (it_value it); [eauto | eauto | congruence].
Qed.

(* the pre-repair X2_Proto rendered an attribute that exists only after unpack(): a freshly built
   UART port configuration could not be rendered. Model of the old behaviour and its refutation. *)
Definition render_proto_pinned (unpacked : bool) : res (list token) :=
  if unpacked then Ok [TText] else Raise AttributeError.
Example proto_pinned_refuted : exists u, render_proto_pinned u = Raise AttributeError.
Proof. exists false. reflexivity. Qed.
