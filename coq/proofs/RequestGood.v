(* Good answers (props/C06.v): a correct answer to the k-th transmission is returned after
   exactly k sends.  _wait() returns the frame that the receive calls deliver; failed attempts
   can be skipped; set / set_mga / poll return the accepted answer. *)
From Coq Require Import Lia ZifyBool ZifyN ZifyNat.
From Ubx Require Import Fields Base Checksum Frame ParserUbx ParserUbxSpec CfgKeys Request RequestSpec.
From Ubx Require Import ChecksumP FrameP ParserUbxP ParserUbxComplete.
Open Scope N_scope.

(* ------------------------------------------------------------------ parser facts *)
Lemma step_filt p d : filt (step p d) = filt p.
Proof. destruct p as [s r q n f]. destruct s; step_cases; reflexivity. Qed.

Lemma process_filt d : forall p, filt (process p d) = filt p.
Proof.
  induction d as [|x t IH]; intros p.
  - reflexivity.
  - rewrite process_cons, IH. apply step_filt.
Qed.

(* a queue that is empty after a stream was empty after each of its prefixes *)
Lemma queue_prefix_nil p P X : queue (process p (P ++ X)) = [] -> queue (process p P) = [].
Proof.
  rewrite process_app. destruct (process_appends X (process p P)) as [a Ha].
  rewrite Ha. intros H. apply app_eq_nil in H. exact (proj1 H).
Qed.

Lemma no_adj_junk_front : forall segs s,
  no_adj_junk (segs ++ [s]) = true -> no_adj_junk segs = true.
Proof.
  induction segs as [|a t IH]; intros s H.
  - reflexivity.
  - destruct t as [|b t'].
    + reflexivity.
    + change (no_adj_junk ((a :: b :: t') ++ [s]))
        with (negb (is_junk a && is_junk b) && no_adj_junk ((b :: t') ++ [s])) in H.
      apply andb_true_iff in H. destruct H as [H1 H2].
      change (no_adj_junk (a :: b :: t'))
        with (negb (is_junk a && is_junk b) && no_adj_junk (b :: t')).
      rewrite H1, (IH s H2). reflexivity.
Qed.

Lemma inert_expected fl : forall segs,
  Forall (fun s => expected (Some fl) s = []) segs -> flat_map (expected (Some fl)) segs = [].
Proof.
  induction segs as [|a t IH]; intros H.
  - reflexivity.
  - inversion H as [|a' t' Ha Ht]; subst a' t'.
    cbn [flat_map]. rewrite Ha, (IH Ht). reflexivity.
Qed.

Lemma wire_split c i pl :
  wire c i pl = ([181; 98] ++ wire_hdr c i pl ++ pl ++ [fst (fletcher (wire_hdr c i pl ++ pl))])
                ++ [snd (fletcher (wire_hdr c i pl ++ pl))].
Proof. unfold wire. cbv zeta. rewrite <- !app_assoc. reflexivity. Qed.

(* Inert traffic followed by one frame of the filter: the frame is queued by the very last
   byte and by no earlier one; the parser is then back in INIT. *)
Lemma stream_parse p fl segs c i pl :
  st p = INIT -> queue p = [] -> filt p = Some fl -> In (c, i) fl ->
  inert fl segs -> no_adj_junk (segs ++ [SFrame c i pl]) = true -> (length pl <= 1000)%nat ->
  let S := flat_map seg_bytes segs ++ wire c i pl in
  (queue (process p S) = [Pkt c i pl] /\ st (process p S) = INIT /\ filt (process p S) = Some fl)
  /\ (forall P X, P ++ X = S -> X <> [] -> queue (process p P) = []).
Proof.
  intros Hst Hq Hf Hin [Hok Hin0] Hadj Hlen S. subst S.
  assert (Hadj1 : no_adj_junk segs = true) by (eapply no_adj_junk_front; exact Hadj).
  destruct (complete_segs segs p Hst Hok Hadj1) as (Hq1 & _ & Hf1 & Hs1).
  set (p1 := process p (flat_map seg_bytes segs)) in *.
  rewrite Hq, Hf, (inert_expected fl segs Hin0) in Hq1. cbn [app] in Hq1.
  rewrite Hf in Hf1.
  split.
  - rewrite process_app. fold p1.
    assert (Hst1 : st p1 = INIT \/ (st p1 = SYNC /\ is_junk (SFrame c i pl) = false)).
    { destruct Hs1 as [H | H]; [left; exact H | right; split; [exact H | reflexivity]]. }
    destruct (seg_step (SFrame c i pl) p1 Hlen Hst1) as (Hq2 & _ & Hf2 & Hs2).
    cbn [seg_bytes expected] in Hq2, Hf2, Hs2.
    rewrite Hq1, Hf1 in Hq2. rewrite Hf1 in Hf2.
    assert (Hif : in_filter (Some fl) (c, i) = true) by (apply in_filter_spec; exact Hin).
    rewrite Hif in Hq2. cbn [app] in Hq2.
    split; [exact Hq2 | split; [|exact Hf2]].
    destruct Hs2 as [H | [_ H]]; [exact H | discriminate H].
  - intros P X HPX HX.
    destruct (exists_last HX) as (X' & x & ->).
    rewrite wire_split, (app_assoc P), (app_assoc (flat_map seg_bytes segs)) in HPX.
    apply app_inj_tail in HPX. destruct HPX as [HPX _].
    apply (queue_prefix_nil p P X'). rewrite HPX.
    rewrite process_app. fold p1.
    destruct p1 as [s1 r1 q1 n1 f1] eqn:Ep1. cbn [st queue filt] in Hq1, Hs1. subst q1.
    rewrite (frame_phase s1 r1 [] n1 f1 c i pl _ Hs1 Hlen).
    reflexivity.
Qed.

(* ------------------------------------------------------------------ _wait() *)
Definition chunk (d : option bytes) : bytes := match d with Some x => x | None => [] end.

Lemma nonempty_chunk p d :
  match nonempty d with Some x => process p x | None => p end = process p (chunk d).
Proof. destruct d as [[|a t]|]; reflexivity. Qed.

Lemma chunks_of_cons d dt evs : chunks_of ((d, dt) :: evs) = chunk d ++ chunks_of evs.
Proof. reflexivity. Qed.

Lemma time_of_cons d dt evs : time_of ((d, dt) :: evs) = dt + time_of evs.
Proof. reflexivity. Qed.

Section Good.
Context {E : Type} (B : backend E) (sk : list N).

(* the world after one loop iteration that pops nothing *)
Definition iter_world (deadline : N) (w : world E) (data : option bytes) (dt : N) (e1 : E) : world E :=
  mkWorld (mkSrv (process (sparser (wsrv w)) (chunk data)) (sreg (wsrv w)) (sretries (wsrv w)) (sdelay (wsrv w)))
          e1 (wnow w + dt) (wtrace w ++ [Rx data dt]) (wtie w || (wnow w =? deadline)).

Lemma wait_iter_none k deadline (w : world E) data dt e1 :
  wnow w < deadline -> receive B (wenv w) = (data, dt, e1) ->
  queue (process (sparser (wsrv w)) (chunk data)) = [] ->
  wait B sk (S k) deadline w = wait B sk k deadline (iter_world deadline w data dt e1).
Proof.
  intros Hlt Hrx Hq. cbn [wait]. cbn [wnow wenv wsrv wtrace wtie].
  destruct (wnow w <? deadline) eqn:Elt; [|lia].
  rewrite Hrx. unfold log. cbn [wnow wenv wsrv wtrace wtie].
  rewrite nonempty_chunk. rewrite (packet_empty _ Hq). reflexivity.
Qed.

Lemma wait_iter_some k deadline (w : world E) data dt e1 c i pl name rk d :
  wnow w < deadline -> receive B (wenv w) = (data, dt, e1) ->
  queue (process (sparser (wsrv w)) (chunk data)) = [Pkt c i pl] ->
  (c, i) <> CID_CRC_ERROR -> reg_lookup (sreg (wsrv w)) (c, i) = Some (name, rk) ->
  build_with_data sk rk pl = Ok d ->
  wait B sk (S k) deadline w =
  (Some (Some (mkRFrame name (c, i) pl d)),
   with_parser (iter_world deadline w data dt e1)
     (let p := process (sparser (wsrv w)) (chunk data) in mkParser (st p) (rg p) [] (rx p) (filt p))).
Proof.
  intros Hlt Hrx Hq Hcrc Hreg Hb. cbn [wait]. cbn [wnow wenv wsrv wtrace wtie].
  destruct (wnow w <? deadline) eqn:Elt; [|lia].
  rewrite Hrx. unfold log. cbn [wnow wenv wsrv wtrace wtie].
  rewrite nonempty_chunk. unfold packet. rewrite Hq.
  cbn [is_crc_marker].
  destruct (cid_eqb (c, i) CID_CRC_ERROR) eqn:Ecrc.
  { apply cid_eqb_eq in Ecrc. contradiction. }
  unfold with_parser. cbn [wnow wenv wsrv wtrace wtie sreg]. rewrite Hreg, Hb. reflexivity.
Qed.

Lemma wait_loop deadline c i pl name rk d :
  (c, i) <> CID_CRC_ERROR -> build_with_data sk rk pl = Ok d ->
  forall evs fuel (w : world E) e',
  rx_unfold B (wenv w) (length evs) = (evs, e') ->
  (forall P X, P ++ X = chunks_of evs -> X <> [] -> queue (process (sparser (wsrv w)) P) = []) ->
  queue (process (sparser (wsrv w)) (chunks_of evs)) = [Pkt c i pl] ->
  evs <> [] -> (exists d0, fst (last evs (None, 0)) = Some d0 /\ d0 <> []) ->
  wnow w + time_of (removelast evs) < deadline ->
  reg_lookup (sreg (wsrv w)) (c, i) = Some (name, rk) ->
  (length evs <= fuel)%nat ->
  exists w', wait B sk fuel deadline w = (Some (Some (mkRFrame name (c, i) pl d)), w')
    /\ wtrace w' = wtrace w ++ map (fun ev => Rx (fst ev) (snd ev)) evs
    /\ wenv w' = e' /\ wnow w' = wnow w + time_of evs
    /\ st (sparser (wsrv w')) = st (process (sparser (wsrv w)) (chunks_of evs))
    /\ queue (sparser (wsrv w')) = []
    /\ filt (sparser (wsrv w')) = filt (sparser (wsrv w))
    /\ sreg (wsrv w') = sreg (wsrv w)
    /\ sretries (wsrv w') = sretries (wsrv w) /\ sdelay (wsrv w') = sdelay (wsrv w).
Proof.
  intros Hcrc Hb.
  induction evs as [|[data dt] evs' IH]; intros fuel w e' Hun Hpre Hfin Hne Hlast Htime Hreg Hfuel.
  - contradiction Hne; reflexivity.
  - destruct fuel as [|k]; [cbn [length] in Hfuel; lia|].
    cbn [length rx_unfold] in Hun.
    destruct (receive B (wenv w)) as [[data' dt'] e1] eqn:Hrx.
    destruct (rx_unfold B e1 (length evs')) as [evs'' e''] eqn:Hun'.
    inversion Hun; subst data' dt' evs'' e''. clear Hun.
    destruct evs' as [|ev2 t].
    + (* the last event *)
      destruct Hlast as (d0 & Hd0 & Hd0ne). cbn [last fst] in Hd0. subst data.
      cbn [removelast time_of fold_right] in Htime.
      rewrite chunks_of_cons in Hfin. cbn [chunks_of flat_map] in Hfin. rewrite app_nil_r in Hfin.
      cbn [rx_unfold length] in Hun'. inversion Hun'; subst e1.
      rewrite (wait_iter_some k deadline w (Some d0) dt e' c i pl name rk d); try assumption; [|lia].
      eexists. split; [reflexivity|].
      cbn [with_parser iter_world wtrace wenv wnow wsrv sparser sreg sretries sdelay st queue filt map fst snd].
      rewrite chunks_of_cons. cbn [chunks_of flat_map chunk]. rewrite app_nil_r.
      rewrite process_filt. cbn [time_of fold_right snd].
      repeat split; try reflexivity. lia.
    + (* an earlier event: nothing is popped *)
      set (evs' := ev2 :: t) in *.
      assert (Hne' : evs' <> []) by (subst evs'; discriminate).
      assert (Hrl : removelast ((data, dt) :: evs') = (data, dt) :: removelast evs') by reflexivity.
      rewrite Hrl, time_of_cons in Htime.
      assert (Hlast' : exists d0, fst (last evs' (None, 0)) = Some d0 /\ d0 <> []) by exact Hlast.
      assert (Htail : chunks_of evs' <> []).
      { destruct Hlast' as (d0 & Hd0 & Hd0ne).
        destruct (exists_last Hne') as (l0 & [dl dtl] & El). rewrite El in Hd0 |- *.
        rewrite last_last in Hd0. cbn [fst] in Hd0. subst dl.
        unfold chunks_of. rewrite flat_map_app. cbn [flat_map fst]. rewrite app_nil_r.
        intros Hnil. apply app_eq_nil in Hnil. destruct Hnil as [_ Hnil]. contradiction. }
      rewrite chunks_of_cons in Hfin, Hpre.
      assert (Hq0 : queue (process (sparser (wsrv w)) (chunk data)) = []).
      { apply (Hpre (chunk data) (chunks_of evs')); [reflexivity | exact Htail]. }
      rewrite (wait_iter_none k deadline w data dt e1); try assumption; [|lia].
      destruct (IH k (iter_world deadline w data dt e1) e') as (w' & Hw & Htr & Henv & Hnow & Hst & Hqu & Hfl & Hsr & Hre & Hde).
      * exact Hun'.
      * intros P X HPX HX. cbn [iter_world wsrv sparser].
        rewrite <- process_app. apply (Hpre (chunk data ++ P) X); [|exact HX].
        rewrite <- app_assoc, HPX. reflexivity.
      * cbn [iter_world wsrv sparser]. rewrite <- process_app. exact Hfin.
      * exact Hne'.
      * exact Hlast'.
      * cbn [iter_world wnow]. lia.
      * exact Hreg.
      * cbn [length] in Hfuel |- *. lia.
      * exists w'. split; [exact Hw|].
        cbn [iter_world wtrace wenv wnow wsrv sparser sreg sretries sdelay] in Htr, Henv, Hnow, Hst, Hfl, Hsr, Hre, Hde.
        rewrite Htr, Hnow, Hst, Hfl, Hsr, Hre, Hde, chunks_of_cons, time_of_cons, <- process_app, process_filt.
        cbn [map fst snd]. rewrite <- app_assoc. cbn [app].
        repeat split; try reflexivity; try assumption. lia.
Qed.

Theorem wait_delivers_in : forall fuel deadline (w : world E) evs e' fl c i pl name rk d,
  rx_unfold B (wenv w) (length evs) = (evs, e') ->
  st (sparser (wsrv w)) = INIT -> queue (sparser (wsrv w)) = [] -> filt (sparser (wsrv w)) = Some fl ->
  In (c, i) fl -> (c, i) <> CID_CRC_ERROR ->
  delivers fl (wnow w) deadline evs c i pl ->
  reg_lookup (sreg (wsrv w)) (c, i) = Some (name, rk) -> build_with_data sk rk pl = Ok d ->
  (length evs <= fuel)%nat ->
  exists w', wait B sk fuel deadline w = (Some (Some (mkRFrame name (c, i) pl d)), w')
    /\ wtrace w' = wtrace w ++ map (fun ev => Rx (fst ev) (snd ev)) evs
    /\ wenv w' = e' /\ wnow w' = wnow w + time_of evs
    /\ st (sparser (wsrv w')) = INIT /\ queue (sparser (wsrv w')) = []
    /\ filt (sparser (wsrv w')) = Some fl /\ sreg (wsrv w') = sreg (wsrv w)
    /\ sretries (wsrv w') = sretries (wsrv w) /\ sdelay (wsrv w') = sdelay (wsrv w).
Proof.
  intros fuel deadline w evs e' fl c i pl name rk d Hun Hst Hq Hf Hin Hcrc Hdel Hreg Hb Hfuel.
  destruct Hdel as (segs & Hinert & Hadj & Hch & Hlen & Hne & Hlast & Htime).
  destruct (stream_parse (sparser (wsrv w)) fl segs c i pl Hst Hq Hf Hin Hinert Hadj Hlen)
    as [(Hfq & Hfs & Hff) Hpre].
  rewrite <- Hch in Hfq, Hfs, Hff, Hpre.
  destruct (wait_loop deadline c i pl name rk d Hcrc Hb evs fuel w e' Hun Hpre Hfq Hne Hlast Htime Hreg Hfuel)
    as (w' & Hw & Htr & Henv & Hnow & Hst' & Hqu & Hfl & Hsr & Hre & Hde).
  exists w'. rewrite Hst', Hfs, Hfl, Hf. repeat split; assumption.
Qed.

(* ------------------------------------------------------------------ what requests keep *)
(* [evolves n w w']: w' has the filter, registry and configuration of w, and its trace is the
   trace of w followed by events of which n are transmissions *)
Definition evolves (n : nat) (w w' : world E) : Prop :=
  filt (sparser (wsrv w')) = filt (sparser (wsrv w)) /\ sreg (wsrv w') = sreg (wsrv w)
  /\ sretries (wsrv w') = sretries (wsrv w) /\ sdelay (wsrv w') = sdelay (wsrv w)
  /\ exists tr, wtrace w' = wtrace w ++ tr /\ count_tx tr = n.

Lemma count_tx_app a b : count_tx (a ++ b) = (count_tx a + count_tx b)%nat.
Proof. unfold count_tx. rewrite filter_app, app_length. reflexivity. Qed.

Lemma evolves_refl w : evolves 0 w w.
Proof.
  unfold evolves. repeat split; try reflexivity.
  exists []. rewrite app_nil_r. split; reflexivity.
Qed.

Lemma evolves_trans a b w w1 w2 : evolves a w w1 -> evolves b w1 w2 -> evolves (a + b) w w2.
Proof.
  intros (Hf1 & Hr1 & Hn1 & Hd1 & tr1 & Ht1 & Hc1) (Hf2 & Hr2 & Hn2 & Hd2 & tr2 & Ht2 & Hc2).
  unfold evolves. rewrite Hf2, Hr2, Hn2, Hd2, Hf1, Hr1, Hn1, Hd1.
  repeat split; try reflexivity.
  exists (tr1 ++ tr2). rewrite Ht2, Ht1, <- app_assoc, count_tx_app, Hc1, Hc2.
  split; reflexivity.
Qed.

Lemma evolves_trans0 a w w1 w2 : evolves a w w1 -> evolves 0 w1 w2 -> evolves a w w2.
Proof. intros H1 H2. rewrite <- (Nat.add_0_r a). exact (evolves_trans a 0 w w1 w2 H1 H2). Qed.

Lemma evolves_log n w e1 now ev :
  n = (if is_tx ev then 1 else 0)%nat -> evolves n w (log w e1 now ev).
Proof.
  intros ->. unfold evolves, log. cbn [wsrv wtrace]. repeat split; try reflexivity.
  exists [ev]. split; [reflexivity|]. unfold count_tx. cbn [filter].
  destruct (is_tx ev); reflexivity.
Qed.

Lemma evolves_parser w p :
  filt p = filt (sparser (wsrv w)) -> evolves 0 w (with_parser w p).
Proof.
  intros Hf. unfold evolves, with_parser. cbn [wsrv wtrace sparser sreg sretries sdelay].
  repeat split; try reflexivity; try exact Hf.
  exists []. rewrite app_nil_r. split; reflexivity.
Qed.

Lemma evolves_tie w b :
  evolves 0 w (mkWorld (wsrv w) (wenv w) (wnow w) (wtrace w) b).
Proof.
  unfold evolves. cbn [wsrv wtrace]. repeat split; try reflexivity.
  exists []. rewrite app_nil_r. split; reflexivity.
Qed.

Lemma packet_filt p : filt (snd (packet p)) = filt p.
Proof. unfold packet. destruct (queue p); reflexivity. Qed.

Lemma wait_evolves : forall fuel deadline (w : world E),
  evolves 0 w (snd (wait B sk fuel deadline w)).
Proof.
  induction fuel as [|k IH]; intros deadline w.
  - apply evolves_refl.
  - cbn [wait].
    set (w0 := mkWorld (wsrv w) (wenv w) (wnow w) (wtrace w) (wtie w || (wnow w =? deadline))).
    assert (H0 : evolves 0 w w0) by apply evolves_tie.
    destruct (wnow w0 <? deadline); [|exact H0].
    destruct (receive B (wenv w0)) as [[data dt] e1].
    set (w1 := log w0 e1 (wnow w0 + dt) (Rx data dt)).
    assert (H1 : evolves 0 w w1).
    { apply (evolves_trans0 0 w w0 w1 H0). apply evolves_log. reflexivity. }
    rewrite nonempty_chunk.
    destruct (packet (process (sparser (wsrv w1)) (chunk data))) as [x p'] eqn:Hp.
    set (w2 := with_parser w1 p').
    assert (H2 : evolves 0 w w2).
    { apply (evolves_trans0 0 w w1 w2 H1). apply evolves_parser.
      pose proof (packet_filt (process (sparser (wsrv w1)) (chunk data))) as Hpf.
      rewrite Hp in Hpf. cbn [snd] in Hpf. rewrite Hpf. apply process_filt. }
    assert (Hrec : evolves 0 w (snd (wait B sk k deadline w2))).
    { apply (evolves_trans0 0 w w2 _ H2). apply IH. }
    destruct x as [[c i payload|]|]; try exact Hrec.
    destruct (is_crc_marker (Pkt c i payload)); [exact Hrec|].
    destruct (reg_lookup (sreg (wsrv w2)) (c, i)) as [[name rk]|]; [|exact Hrec].
    destruct (build_with_data sk rk payload); [exact H2 | exact Hrec].
Qed.

Lemma wait_evolves_eq fuel deadline (w : world E) r w' :
  wait B sk fuel deadline w = (r, w') -> evolves 0 w w'.
Proof. intros H. pose proof (wait_evolves fuel deadline w) as H0. rewrite H in H0. exact H0. Qed.

Lemma poll_phase_evolves : forall fuel req ack resp deadline (w : world E),
  evolves 0 w (snd (poll_phase B sk fuel req ack resp deadline w)).
Proof.
  induction fuel as [|k IH]; intros req ack resp deadline w.
  - apply evolves_refl.
  - cbn [poll_phase].
    destruct (wait B sk (S k) deadline w) as [r w'] eqn:Hw.
    apply wait_evolves_eq in Hw.
    destruct r as [[f|]|]; try exact Hw.
    destruct (negb ack).
    + destruct (cid_eqb (rf_cid f) req).
      * destruct (fst req =? CLASS_CFG); [|exact Hw].
        apply (evolves_trans0 0 w w' _ Hw). apply IH.
      * apply (evolves_trans0 0 w w' _ Hw). apply IH.
    + destruct (check_ack_nak req f).
      * destruct resp; exact Hw.
      * apply (evolves_trans0 0 w w' _ Hw). apply IH.
      * apply (evolves_trans0 0 w w' _ Hw). apply IH.
Qed.

Lemma poll_phase_evolves_eq fuel req ack resp deadline (w : world E) r w' :
  poll_phase B sk fuel req ack resp deadline w = (r, w') -> evolves 0 w w'.
Proof.
  intros H. pose proof (poll_phase_evolves fuel req ack resp deadline w) as H0.
  rewrite H in H0. exact H0.
Qed.

Lemma flush_evolves w : evolves 0 w (do_flush B w).
Proof. apply evolves_log. reflexivity. Qed.

Lemma recover_evolves w : evolves 0 w (do_recover B w).
Proof. apply evolves_log. reflexivity. Qed.

Lemma purge_evolves w : evolves 0 w (purge w).
Proof. apply evolves_parser. reflexivity. Qed.

Lemma send_evolves w c payload ok w' : send B w c payload = (ok, w') -> evolves 1 w w'.
Proof.
  unfold send. destruct (transmit B (wenv w) _) as [ok' e1]. intros H. inversion H; subst ok' w'.
  apply evolves_log. reflexivity.
Qed.

Lemma flush_send_evolves w c payload ok w' :
  send B (do_flush B w) c payload = (ok, w') -> evolves 1 w w'.
Proof.
  intros H. apply send_evolves in H.
  exact (evolves_trans 0 1 w _ w' (flush_evolves w) H).
Qed.

Lemma attempt_wait_evolves fuel o req w r w' :
  attempt_wait B sk fuel o req w = Some (r, w') -> evolves 0 w w'.
Proof.
  destruct o; cbn [attempt_wait].
  - destruct (poll_phase B sk fuel req false None _ w) as [a w2] eqn:Hp.
    apply poll_phase_evolves_eq in Hp.
    destruct a; intros H; inversion H; subst; try exact Hp.
    apply (evolves_trans0 0 w w2 _ Hp). apply recover_evolves.
  - destruct (wait B sk fuel _ w) as [x w2] eqn:Hw. apply wait_evolves_eq in Hw.
    destruct x as [[f|]|]; [| |discriminate].
    + destruct (match check_ack_nak req f with IsOther => false | _ => true end);
        intros H; inversion H; subst; exact Hw.
    + intros H; inversion H; subst. apply (evolves_trans0 0 w w2 _ Hw). apply recover_evolves.
  - destruct (wait B sk fuel _ w) as [x w2] eqn:Hw. apply wait_evolves_eq in Hw.
    destruct x as [[f|]|]; [| |discriminate].
    + destruct (check_mga f); intros H; inversion H; subst; exact Hw.
    + intros H; inversion H; subst. apply (evolves_trans0 0 w w2 _ Hw). apply recover_evolves.
  - discriminate.
Qed.

Lemma failed_evolves fuel o req payload k w wk :
  failed_attempts B sk fuel o req payload k w wk -> evolves k w wk.
Proof.
  induction 1 as [w | n w w1 w' Hs _ IH | n w w1 w2 w' Hs Ha _ IH].
  - apply evolves_refl.
  - exact (evolves_trans 1 n w w1 w' (flush_send_evolves _ _ _ _ _ Hs) IH).
  - apply (evolves_trans 1 n w w2 w'); [|exact IH].
    apply (evolves_trans0 1 w w1 w2 (flush_send_evolves _ _ _ _ _ Hs)).
    apply (evolves_trans0 0 w1 (purge w1) w2 (purge_evolves w1)).
    exact (attempt_wait_evolves _ _ _ _ _ _ Ha).
Qed.

(* ------------------------------------------------------------------ skipping failed attempts *)
Lemma skip_failed_set_in fuel (mga : bool) req payload n k w wk :
  failed_attempts B sk fuel (if mga then RSetMga else RSet) req payload k w wk ->
  set_attempts B sk fuel (k + n)%nat mga req payload w = set_attempts B sk fuel n mga req payload wk.
Proof.
  remember (if mga then RSetMga else RSet) as o eqn:Ho.
  induction 1 as [w | k w w1 w' Hs _ IH | k w w1 w2 w' Hs Ha _ IH].
  - reflexivity.
  - cbn [Nat.add set_attempts]. rewrite Hs. exact IH.
  - cbn [Nat.add set_attempts]. rewrite Hs. rewrite <- IH. clear IH.
    subst o. destruct mga; cbn [attempt_wait] in Ha.
    + destruct (wait B sk fuel (wnow (purge w1) + sdelay (wsrv (purge w1))) (purge w1)) as [x w3].
      destruct x as [[f|]|]; [| |discriminate Ha].
      * destruct (check_mga f); inversion Ha; subst; reflexivity.
      * inversion Ha; subst; reflexivity.
    + destruct (wait B sk fuel (wnow (purge w1) + sdelay (wsrv (purge w1))) (purge w1)) as [x w3].
      destruct x as [[f|]|]; [| |discriminate Ha].
      * destruct (match check_ack_nak req f with IsOther => false | _ => true end);
          inversion Ha; subst; reflexivity.
      * inversion Ha; subst; reflexivity.
Qed.

Lemma skip_failed_poll_in fuel req payload n k w wk :
  failed_attempts B sk fuel RPoll req payload k w wk ->
  poll_attempts B sk fuel (k + n)%nat req payload w = poll_attempts B sk fuel n req payload wk.
Proof.
  induction 1 as [w | k w w1 w' Hs _ IH | k w w1 w2 w' Hs Ha _ IH].
  - reflexivity.
  - cbn [Nat.add poll_attempts]. rewrite Hs. exact IH.
  - cbn [Nat.add poll_attempts]. rewrite Hs. rewrite <- IH. clear IH.
    cbn [attempt_wait] in Ha.
    destruct (poll_phase B sk fuel req false None (wnow (purge w1) + sdelay (wsrv (purge w1))) (purge w1))
      as [a w3].
    destruct a; inversion Ha; subst; reflexivity.
Qed.

(* ------------------------------------------------------------------ the answered attempt *)
Lemma new_events_evolves n (w0 w w' : world E) :
  wtrace w0 = wtrace w -> evolves n w0 w' -> count_tx (new_events w w') = n.
Proof.
  intros Ht (_ & _ & _ & _ & tr & Htr & Hc).
  unfold new_events. rewrite Htr, Ht, skipn_length_app. exact Hc.
Qed.

Lemma ack_check req pa d name :
  ack_names pa req -> build_with_data sk ack_kind pa = Ok d ->
  check_ack_nak req (mkRFrame name CID_ACK pa d) = IsAck.
Proof.
  intros [rest ->] Hb. unfold build_with_data, ack_kind, decode in Hb.
  cbn [fresh_fields map fst snd default_val unpack_fields unpack_item firstn skipn width bind] in Hb.
  unfold unpack_int in Hb. cbn [length Nat.eqb negb andb le_dec bind] in Hb.
  inversion Hb; subst d. clear Hb.
  unfold check_ack_nak. cbn [rf_cid rf_dec dec_getf].
  change (cid_eqb CID_ACK CID_ACK) with true. cbv iota.
  cbn [getf String.eqb Ascii.eqb Bool.eqb].
  rewrite !N.add_0_r, !Z.eqb_refl. reflexivity.
Qed.

Lemma set_attempt_answer fuel (mga : bool) req payload (w0 : world E) k wk w1 evs e' fl c i pl name rk d n :
  failed_attempts B sk fuel (if mga then RSetMga else RSet) req payload k w0 wk ->
  send B (do_flush B wk) req payload = (true, w1) ->
  rx_unfold B (wenv w1) (length evs) = (evs, e') ->
  filt (sparser (wsrv w0)) = Some fl -> In (c, i) fl -> (c, i) <> CID_CRC_ERROR ->
  delivers fl (wnow w1) (wnow w1 + sdelay (wsrv w1)) evs c i pl ->
  reg_lookup (sreg (wsrv w1)) (c, i) = Some (name, rk) -> build_with_data sk rk pl = Ok d ->
  (length evs <= fuel)%nat ->
  (if mga then check_mga (mkRFrame name (c, i) pl d)
   else match check_ack_nak req (mkRFrame name (c, i) pl d) with IsOther => false | _ => true end) = true ->
  exists w', set_attempts B sk fuel (k + S n)%nat mga req payload w0
             = (Return (Some (mkRFrame name (c, i) pl d)), w')
    /\ evolves (S k) w0 w'.
Proof.
  intros Hfa Hs Hun Hf Hin Hcrc Hdel Hreg Hb Hfuel Hacc.
  rewrite (skip_failed_set_in fuel mga req payload (S n) k w0 wk Hfa).
  cbn [set_attempts]. rewrite Hs.
  assert (Hev : evolves (S k) w0 (purge w1)).
  { rewrite <- Nat.add_1_r.
    apply (evolves_trans k 1 w0 wk _ (failed_evolves _ _ _ _ _ _ _ Hfa)).
    apply (evolves_trans0 1 wk w1 _ (flush_send_evolves _ _ _ _ _ Hs)). apply purge_evolves. }
  destruct (wait_delivers_in fuel (wnow (purge w1) + sdelay (wsrv (purge w1))) (purge w1)
              evs e' fl c i pl name rk d) as (w' & Hw & _); try assumption; try reflexivity.
  { destruct Hev as (Hfl & _). rewrite Hfl. exact Hf. }
  rewrite Hw. cbv zeta. rewrite Hacc.
  exists w'. split; [reflexivity|].
  exact (evolves_trans0 (S k) w0 _ w' Hev (wait_evolves_eq _ _ _ _ _ Hw)).
Qed.

Lemma poll_attempt_answer fuel req payload (w0 : world E) k wk w1 f w2 n :
  failed_attempts B sk fuel RPoll req payload k w0 wk ->
  send B (do_flush B wk) req payload = (true, w1) ->
  poll_phase B sk fuel req false None (wnow (purge w1) + sdelay (wsrv (purge w1))) (purge w1) = (AOk f, w2) ->
  exists w', poll_attempts B sk fuel (k + S n)%nat req payload w0 = (Return (Some f), w')
    /\ evolves (S k) w0 w'.
Proof.
  intros Hfa Hs Hp.
  rewrite (skip_failed_poll_in fuel req payload (S n) k w0 wk Hfa).
  cbn [poll_attempts]. rewrite Hs, Hp.
  exists w2. split; [reflexivity|].
  rewrite <- Nat.add_1_r.
  apply (evolves_trans k 1 w0 wk _ (failed_evolves _ _ _ _ _ _ _ Hfa)).
  apply (evolves_trans0 1 wk w1 _ (flush_send_evolves _ _ _ _ _ Hs)).
  apply (evolves_trans0 0 w1 (purge w1) w2 (purge_evolves w1)).
  exact (poll_phase_evolves_eq _ _ _ _ _ _ _ _ Hp).
Qed.

Lemma cid_eqb_refl (c : cid) : cid_eqb c c = true.
Proof. apply cid_eqb_eq. reflexivity. Qed.

Lemma poll_filter_self c : In c (poll_filter c).
Proof. unfold poll_filter. destruct (fst c =? CLASS_CFG); left; reflexivity. Qed.

Lemma poll_filter_ack c : (fst c =? CLASS_CFG) = true -> In (5, 1) (poll_filter c).
Proof. intros H. unfold poll_filter. rewrite H. right; left; reflexivity. Qed.

(* the waiting part of a poll attempt: response alone ... *)
Lemma poll_phase_plain fuel c i deadline (w : world E) evs e' pl name rk d :
  (c =? CLASS_CFG) = false -> (c, i) <> CID_CRC_ERROR ->
  rx_unfold B (wenv w) (length evs) = (evs, e') ->
  st (sparser (wsrv w)) = INIT -> queue (sparser (wsrv w)) = [] ->
  filt (sparser (wsrv w)) = Some (poll_filter (c, i)) ->
  delivers (poll_filter (c, i)) (wnow w) deadline evs c i pl ->
  reg_lookup (sreg (wsrv w)) (c, i) = Some (name, rk) -> build_with_data sk rk pl = Ok d ->
  (1 <= fuel)%nat -> (length evs <= fuel)%nat ->
  exists w', poll_phase B sk fuel (c, i) false None deadline w = (AOk (mkRFrame name (c, i) pl d), w').
Proof.
  intros Hcfg Hcrc Hun Hst Hq Hf Hdel Hreg Hb Hf1 Hfuel.
  destruct fuel as [|k]; [lia|].
  destruct (wait_delivers_in (S k) deadline w evs e' (poll_filter (c, i)) c i pl name rk d)
    as (w' & Hw & _); try assumption.
  { apply poll_filter_self. }
  cbn [poll_phase]. rewrite Hw. cbn [negb rf_cid fst].
  rewrite cid_eqb_refl, Hcfg. exists w'. reflexivity.
Qed.

(* ... or response, then its ACK-ACK in a waiting period of its own *)
Lemma poll_phase_cfg fuel c i (w : world E) evs1 e1 evs2 e2 pl name rk d pa da :
  (c =? CLASS_CFG) = true ->
  rx_unfold B (wenv w) (length evs1) = (evs1, e1) ->
  st (sparser (wsrv w)) = INIT -> queue (sparser (wsrv w)) = [] ->
  filt (sparser (wsrv w)) = Some (poll_filter (c, i)) ->
  delivers (poll_filter (c, i)) (wnow w) (wnow w + sdelay (wsrv w)) evs1 c i pl ->
  reg_lookup (sreg (wsrv w)) (c, i) = Some (name, rk) -> build_with_data sk rk pl = Ok d ->
  rx_unfold B e1 (length evs2) = (evs2, e2) ->
  delivers (poll_filter (c, i)) (wnow w + time_of evs1) (wnow w + time_of evs1 + sdelay (wsrv w)) evs2 5 1 pa ->
  ack_names pa (c, i) ->
  reg_lookup (sreg (wsrv w)) CID_ACK = Some ("UbxAckAck"%string, ack_kind) ->
  build_with_data sk ack_kind pa = Ok da ->
  (length evs1 <= fuel)%nat -> (2 <= fuel)%nat -> (S (length evs2) <= fuel)%nat ->
  exists w', poll_phase B sk fuel (c, i) false None (wnow w + sdelay (wsrv w)) w
             = (AOk (mkRFrame name (c, i) pl d), w').
Proof.
  intros Hcfg Hun1 Hst Hq Hf Hdel1 Hreg Hb Hun2 Hdel2 Hnames Hrack Hback Hfuel1 Hf2 Hfuel2.
  assert (Hcrc : (c, i) <> CID_CRC_ERROR).
  { intros Heq. inversion Heq; subst c. discriminate Hcfg. }
  destruct fuel as [|k]; [lia|].
  destruct (wait_delivers_in (S k) (wnow w + sdelay (wsrv w)) w evs1 e1 (poll_filter (c, i)) c i pl name rk d)
    as (w1 & Hw1 & _ & Henv1 & Hnow1 & Hst1 & Hq1 & Hfl1 & Hsr1 & _ & Hde1); try assumption.
  { apply poll_filter_self. }
  cbn [poll_phase]. rewrite Hw1. cbn [negb rf_cid fst].
  rewrite cid_eqb_refl, Hcfg.
  destruct k as [|k']; [lia|].
  destruct (wait_delivers_in (S k') (wnow w1 + sdelay (wsrv w1)) w1 evs2 e2 (poll_filter (c, i)) 5 1 pa
              "UbxAckAck"%string ack_kind da)
    as (w2 & Hw2 & _); try assumption.
  { rewrite Henv1. exact Hun2. }
  { apply poll_filter_ack. exact Hcfg. }
  { discriminate. }
  { rewrite Hnow1, Hde1. exact Hdel2. }
  { rewrite Hsr1. exact Hrack. }
  { lia. }
  cbn [poll_phase]. rewrite Hw2. cbn [negb].
  change (5, 1) with CID_ACK. rewrite (ack_check (c, i) pa da _ Hnames Hback).
  exists w2. reflexivity.
Qed.
Lemma attempt_start_evolves fuel o req payload (w0 : world E) k wk w1 :
  failed_attempts B sk fuel o req payload k w0 wk ->
  send B (do_flush B wk) req payload = (true, w1) ->
  evolves (S k) w0 (purge w1).
Proof.
  intros Hfa Hs. rewrite <- Nat.add_1_r.
  apply (evolves_trans k 1 w0 wk _ (failed_evolves _ _ _ _ _ _ _ Hfa)).
  apply (evolves_trans0 1 wk w1 _ (flush_send_evolves _ _ _ _ _ Hs)). apply purge_evolves.
Qed.

Lemma poll_phase_plain_req fuel (req : cid) deadline (w : world E) evs e' pl name rk d :
  is_cfg req = false -> req <> CID_CRC_ERROR ->
  rx_unfold B (wenv w) (length evs) = (evs, e') ->
  st (sparser (wsrv w)) = INIT -> queue (sparser (wsrv w)) = [] ->
  filt (sparser (wsrv w)) = Some (poll_filter req) ->
  delivers (poll_filter req) (wnow w) deadline evs (fst req) (snd req) pl ->
  reg_lookup (sreg (wsrv w)) req = Some (name, rk) -> build_with_data sk rk pl = Ok d ->
  (1 <= fuel)%nat -> (length evs <= fuel)%nat ->
  exists w', poll_phase B sk fuel req false None deadline w = (AOk (mkRFrame name req pl d), w').
Proof. destruct req as [c i]. apply poll_phase_plain. Qed.

Lemma poll_phase_cfg_req fuel (req : cid) (w : world E) evs1 e1 evs2 e2 pl name rk d pa da :
  is_cfg req = true ->
  rx_unfold B (wenv w) (length evs1) = (evs1, e1) ->
  st (sparser (wsrv w)) = INIT -> queue (sparser (wsrv w)) = [] ->
  filt (sparser (wsrv w)) = Some (poll_filter req) ->
  delivers (poll_filter req) (wnow w) (wnow w + sdelay (wsrv w)) evs1 (fst req) (snd req) pl ->
  reg_lookup (sreg (wsrv w)) req = Some (name, rk) -> build_with_data sk rk pl = Ok d ->
  rx_unfold B e1 (length evs2) = (evs2, e2) ->
  delivers (poll_filter req) (wnow w + time_of evs1) (wnow w + time_of evs1 + sdelay (wsrv w)) evs2 5 1 pa ->
  ack_names pa req ->
  reg_lookup (sreg (wsrv w)) CID_ACK = Some ("UbxAckAck"%string, ack_kind) ->
  build_with_data sk ack_kind pa = Ok da ->
  (length evs1 <= fuel)%nat -> (2 <= fuel)%nat -> (S (length evs2) <= fuel)%nat ->
  exists w', poll_phase B sk fuel req false None (wnow w + sdelay (wsrv w)) w
             = (AOk (mkRFrame name req pl d), w').
Proof. destruct req as [c i]. apply poll_phase_cfg. Qed.

Lemma reg_lookup_registered r c x : reg_lookup (reg_register r c x) c = Some (fst x, snd x).
Proof.
  unfold reg_register. cbn [reg_lookup]. rewrite cid_eqb_refl, <- surjective_pairing. reflexivity.
Qed.
End Good.

(* ================================================================== the statements of C06 *)
Theorem wait_delivers : forall E (B : backend E) sk fuel deadline w evs e' fl c i pl name rk d,
  rx_unfold B (wenv w) (length evs) = (evs, e') ->
  st (sparser (wsrv w)) = INIT -> queue (sparser (wsrv w)) = [] -> filt (sparser (wsrv w)) = Some fl ->
  In (c, i) fl -> (c, i) <> CID_CRC_ERROR ->
  delivers fl (wnow w) deadline evs c i pl ->
  reg_lookup (sreg (wsrv w)) (c, i) = Some (name, rk) -> build_with_data sk rk pl = Ok d ->
  (length evs <= fuel)%nat ->
  exists w', wait B sk fuel deadline w = (Some (Some (mkRFrame name (c, i) pl d)), w')
    /\ wtrace w' = wtrace w ++ map (fun ev => Rx (fst ev) (snd ev)) evs
    /\ wenv w' = e' /\ wnow w' = wnow w + time_of evs
    /\ st (sparser (wsrv w')) = INIT /\ queue (sparser (wsrv w')) = []
    /\ filt (sparser (wsrv w')) = Some fl /\ sreg (wsrv w') = sreg (wsrv w)
    /\ sretries (wsrv w') = sretries (wsrv w) /\ sdelay (wsrv w') = sdelay (wsrv w).
Proof. intros E B sk. exact (wait_delivers_in B sk). Qed.

Theorem skip_failed_set : forall E (B : backend E) sk fuel (mga : bool) req payload n k w wk,
  failed_attempts B sk fuel (if mga then RSetMga else RSet) req payload k w wk ->
  set_attempts B sk fuel (k + n) mga req payload w = set_attempts B sk fuel n mga req payload wk
  /\ exists tr, wtrace wk = wtrace w ++ tr /\ count_tx tr = k.
Proof.
  intros E B sk fuel mga req payload n k w wk Hfa. split.
  - apply skip_failed_set_in. exact Hfa.
  - apply failed_evolves in Hfa. destruct Hfa as (_ & _ & _ & _ & Htr). exact Htr.
Qed.

Theorem skip_failed_poll : forall E (B : backend E) sk fuel req payload n k w wk,
  failed_attempts B sk fuel RPoll req payload k w wk ->
  poll_attempts B sk fuel (k + n) req payload w = poll_attempts B sk fuel n req payload wk
  /\ exists tr, wtrace wk = wtrace w ++ tr /\ count_tx tr = k.
Proof.
  intros E B sk fuel req payload n k w wk Hfa. split.
  - apply skip_failed_poll_in. exact Hfa.
  - apply failed_evolves in Hfa. destruct Hfa as (_ & _ & _ & _ & Htr). exact Htr.
Qed.

Lemma retries_split k r : (k < S r)%nat -> S r = (k + S (r - k))%nat.
Proof. lia. Qed.

Theorem set_answer_after_k : forall E (B : backend E) sk fuel rq payload k w wk w1 evs e' i pa d,
  pack_body (rq_body rq) = Ok payload ->
  (k < S (sretries (wsrv w)))%nat ->
  let w0 := with_parser w (set_filters (sparser (wsrv w)) [CID_ACK; CID_NAK]) in
  failed_attempts B sk fuel RSet (rq_cid rq) payload k w0 wk ->
  send B (do_flush B wk) (rq_cid rq) payload = (true, w1) ->
  rx_unfold B (wenv w1) (length evs) = (evs, e') ->
  delivers [CID_ACK; CID_NAK] (wnow w1) (wnow w1 + sdelay (wsrv w1)) evs 5 i pa ->
  (i = 1 /\ ack_names pa (rq_cid rq) \/ i = 0) ->
  reg_lookup (sreg (wsrv w1)) (5, i) = Some ((if i =? 1 then "UbxAckAck"%string else "UbxAckNak"%string), ack_kind) ->
  build_with_data sk ack_kind pa = Ok d ->
  (length evs <= fuel)%nat ->
  exists w', do_request B sk fuel RSet rq w
             = (Return (Some (mkRFrame (if i =? 1 then "UbxAckAck"%string else "UbxAckNak"%string) (5, i) pa d)), w')
    /\ count_tx (new_events w w') = S k.
Proof.
  intros E B sk fuel rq payload k w wk w1 evs e' i pa d Hpack Hk w0 Hfa Hs Hun Hdel Hi Hreg Hb Hfuel.
  cbn [do_request]. unfold Request.set. cbv zeta. fold w0. rewrite Hpack.
  change (sretries (wsrv w0)) with (sretries (wsrv w)).
  rewrite (retries_split k _ Hk).
  destruct (set_attempt_answer B sk fuel false (rq_cid rq) payload w0 k wk w1 evs e' [CID_ACK; CID_NAK]
              5 i pa (if i =? 1 then "UbxAckAck"%string else "UbxAckNak"%string) ack_kind d
              (sretries (wsrv w) - k)) as (w' & Hw & Hev); try assumption; try reflexivity.
  - destruct Hi as [[-> _] | ->]; [left | right; left]; reflexivity.
  - discriminate.
  - destruct Hi as [[-> Hn] | ->].
    + change (5, 1) with CID_ACK. rewrite (ack_check sk (rq_cid rq) pa d _ Hn Hb). reflexivity.
    + reflexivity.
  - exists w'. split; [exact Hw|].
    apply (new_events_evolves (S k) w0 w w'); [reflexivity | exact Hev].
Qed.

Theorem mga_answer_after_k : forall E (B : backend E) sk fuel rq payload k w wk w1 evs e' pa d,
  pack_body (rq_body rq) = Ok payload ->
  (k < S (sretries (wsrv w)))%nat ->
  let w0 := with_parser w (set_filter (sparser (wsrv w)) CID_MGA_ACK) in
  failed_attempts B sk fuel RSetMga (rq_cid rq) payload k w0 wk ->
  send B (do_flush B wk) (rq_cid rq) payload = (true, w1) ->
  rx_unfold B (wenv w1) (length evs) = (evs, e') ->
  delivers [CID_MGA_ACK] (wnow w1) (wnow w1 + sdelay (wsrv w1)) evs 19 96 pa ->
  reg_lookup (sreg (wsrv w1)) CID_MGA_ACK = Some ("UbxMgaAckData0"%string, mga_kind) ->
  build_with_data sk mga_kind pa = Ok d -> dec_getf d "type" = Some (VInt 1) ->
  (length evs <= fuel)%nat ->
  exists w', do_request B sk fuel RSetMga rq w
             = (Return (Some (mkRFrame "UbxMgaAckData0"%string CID_MGA_ACK pa d)), w')
    /\ count_tx (new_events w w') = S k.
Proof.
  intros E B sk fuel rq payload k w wk w1 evs e' pa d Hpack Hk w0 Hfa Hs Hun Hdel Hreg Hb Hty Hfuel.
  cbn [do_request]. unfold set_mga. cbv zeta. fold w0. rewrite Hpack.
  change (sretries (wsrv w0)) with (sretries (wsrv w)).
  rewrite (retries_split k _ Hk).
  destruct (set_attempt_answer B sk fuel true (rq_cid rq) payload w0 k wk w1 evs e' [CID_MGA_ACK]
              19 96 pa "UbxMgaAckData0"%string mga_kind d
              (sretries (wsrv w) - k)) as (w' & Hw & Hev); try assumption; try reflexivity.
  - left; reflexivity.
  - discriminate.
  - unfold check_mga. cbn [rf_cid rf_dec]. rewrite Hty. reflexivity.
  - exists w'. split; [exact Hw|].
    apply (new_events_evolves (S k) w0 w w'); [reflexivity | exact Hev].
Qed.

Theorem poll_answer_after_k : forall E (B : backend E) sk fuel rq payload k w wk w1 evs e' pl d,
  pack_body (rq_body rq) = Ok payload ->
  (k < S (sretries (wsrv w)))%nat -> is_cfg (rq_cid rq) = false -> rq_cid rq <> CID_CRC_ERROR ->
  let w0 := with_parser (with_reg w (reg_register (sreg (wsrv w)) (rq_cid rq) (rq_resp rq)))
                        (set_filters (sparser (wsrv w)) (poll_filter (rq_cid rq))) in
  failed_attempts B sk fuel RPoll (rq_cid rq) payload k w0 wk ->
  send B (do_flush B wk) (rq_cid rq) payload = (true, w1) ->
  rx_unfold B (wenv w1) (length evs) = (evs, e') ->
  delivers (poll_filter (rq_cid rq)) (wnow w1) (wnow w1 + sdelay (wsrv w1)) evs
           (fst (rq_cid rq)) (snd (rq_cid rq)) pl ->
  build_with_data sk (snd (rq_resp rq)) pl = Ok d ->
  (2 * length evs + 4 <= fuel)%nat ->
  exists w', do_request B sk fuel RPoll rq w
             = (Return (Some (mkRFrame (fst (rq_resp rq)) (rq_cid rq) pl d)), w')
    /\ count_tx (new_events w w') = S k.
Proof.
  intros E B sk fuel rq payload k w wk w1 evs e' pl d Hpack Hk Hcfg Hcrc w0 Hfa Hs Hun Hdel Hb Hfuel.
  cbn [do_request].
  change (poll B sk fuel rq w)
    with (match pack_body (rq_body rq) with
          | Raise e => (Raised e, w0)
          | Ok payload => poll_attempts B sk fuel (S (sretries (wsrv w))) (rq_cid rq) payload w0
          end).
  rewrite Hpack, (retries_split k _ Hk).
  destruct (attempt_start_evolves B sk fuel RPoll (rq_cid rq) payload w0 k wk w1 Hfa Hs)
    as (Hfl & Hsr & _).
  assert (Hfilt : filt (sparser (wsrv (purge w1))) = Some (poll_filter (rq_cid rq))).
  { rewrite Hfl. reflexivity. }
  assert (Hreg : reg_lookup (sreg (wsrv (purge w1))) (rq_cid rq) = Some (fst (rq_resp rq), snd (rq_resp rq))).
  { rewrite Hsr. apply reg_lookup_registered. }
  destruct (poll_phase_plain_req B sk fuel (rq_cid rq) (wnow (purge w1) + sdelay (wsrv (purge w1)))
              (purge w1) evs e' pl (fst (rq_resp rq)) (snd (rq_resp rq)) d
              Hcfg Hcrc Hun eq_refl eq_refl Hfilt Hdel Hreg Hb) as (w2 & Hp); [lia | lia |].
  destruct (poll_attempt_answer B sk fuel (rq_cid rq) payload w0 k wk w1 _ w2
              (sretries (wsrv w) - k) Hfa Hs Hp) as (w' & Hw & Hev).
  exists w'. split; [exact Hw|].
  apply (new_events_evolves (S k) w0 w w'); [reflexivity | exact Hev].
Qed.

Theorem cfg_poll_answer_after_k : forall E (B : backend E) sk fuel rq payload k w wk w1
    evs1 e1 evs2 e2 pl d pa da,
  pack_body (rq_body rq) = Ok payload ->
  (k < S (sretries (wsrv w)))%nat -> is_cfg (rq_cid rq) = true ->
  let w0 := with_parser (with_reg w (reg_register (sreg (wsrv w)) (rq_cid rq) (rq_resp rq)))
                        (set_filters (sparser (wsrv w)) (poll_filter (rq_cid rq))) in
  failed_attempts B sk fuel RPoll (rq_cid rq) payload k w0 wk ->
  send B (do_flush B wk) (rq_cid rq) payload = (true, w1) ->
  rx_unfold B (wenv w1) (length evs1) = (evs1, e1) ->
  delivers (poll_filter (rq_cid rq)) (wnow w1) (wnow w1 + sdelay (wsrv w1)) evs1
           (fst (rq_cid rq)) (snd (rq_cid rq)) pl ->
  build_with_data sk (snd (rq_resp rq)) pl = Ok d ->
  rx_unfold B e1 (length evs2) = (evs2, e2) ->
  delivers (poll_filter (rq_cid rq)) (wnow w1 + time_of evs1)
           (wnow w1 + time_of evs1 + sdelay (wsrv w1)) evs2 5 1 pa ->
  ack_names pa (rq_cid rq) ->
  reg_lookup (sreg (wsrv w1)) CID_ACK = Some ("UbxAckAck"%string, ack_kind) ->
  build_with_data sk ack_kind pa = Ok da ->
  (2 * (length evs1 + length evs2) + 4 <= fuel)%nat ->
  exists w', do_request B sk fuel RPoll rq w
             = (Return (Some (mkRFrame (fst (rq_resp rq)) (rq_cid rq) pl d)), w')
    /\ count_tx (new_events w w') = S k.
Proof.
  intros E B sk fuel rq payload k w wk w1 evs1 e1 evs2 e2 pl d pa da
         Hpack Hk Hcfg w0 Hfa Hs Hun1 Hdel1 Hb Hun2 Hdel2 Hnames Hrack Hback Hfuel.
  cbn [do_request].
  change (poll B sk fuel rq w)
    with (match pack_body (rq_body rq) with
          | Raise e => (Raised e, w0)
          | Ok payload => poll_attempts B sk fuel (S (sretries (wsrv w))) (rq_cid rq) payload w0
          end).
  rewrite Hpack, (retries_split k _ Hk).
  destruct (attempt_start_evolves B sk fuel RPoll (rq_cid rq) payload w0 k wk w1 Hfa Hs)
    as (Hfl & Hsr & _).
  assert (Hfilt : filt (sparser (wsrv (purge w1))) = Some (poll_filter (rq_cid rq))).
  { rewrite Hfl. reflexivity. }
  assert (Hreg : reg_lookup (sreg (wsrv (purge w1))) (rq_cid rq) = Some (fst (rq_resp rq), snd (rq_resp rq))).
  { rewrite Hsr. apply reg_lookup_registered. }
  destruct (poll_phase_cfg_req B sk fuel (rq_cid rq) (purge w1) evs1 e1 evs2 e2 pl
              (fst (rq_resp rq)) (snd (rq_resp rq)) d pa da
              Hcfg Hun1 eq_refl eq_refl Hfilt Hdel1 Hreg Hb Hun2 Hdel2 Hnames Hrack Hback)
    as (w2 & Hp); [lia | lia | lia |].
  destruct (poll_attempt_answer B sk fuel (rq_cid rq) payload w0 k wk w1 _ w2
              (sretries (wsrv w) - k) Hfa Hs Hp) as (w' & Hw & Hev).
  exists w'. split; [exact Hw|].
  apply (new_events_evolves (S k) w0 w w'); [reflexivity | exact Hev].
Qed.

Print Assumptions wait_delivers.
Print Assumptions skip_failed_set.
Print Assumptions skip_failed_poll.
Print Assumptions set_answer_after_k.
Print Assumptions mga_answer_after_k.
Print Assumptions poll_answer_after_k.
Print Assumptions cfg_poll_answer_after_k.
