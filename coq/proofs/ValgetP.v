(* ValgetP.v — decode-then-encode of a CFG-VALGET response (closes props/C08b.v). *)
From Coq Require Import Lia.
From Ubx Require Import Fields Base FieldsSpec CfgKeys CfgKeysSpec CfgKeysP.
Open Scope N_scope.

(* The 4-byte header [version U1; layer U1; position U2]: decoding consumes exactly four bytes
   and packing the decoded fields gives those four bytes back. *)
Lemma valget_hdr_roundtrip b0 b1 b2 b3 rest :
  b0 < 256 -> b1 < 256 -> b2 < 256 -> b3 < 256 ->
  exists h, unpack_fields (fresh_fields valget_hdr) (b0 :: b1 :: b2 :: b3 :: rest) = Ok (h, rest)
            /\ encode h = Ok [b0; b1; b2; b3].
Proof.
  intros H0 H1 H2 H3.
  assert (A0 : all_bytes [b0] = true) by (apply all_bytes_cons; split; [assumption|reflexivity]).
  assert (A1 : all_bytes [b1] = true) by (apply all_bytes_cons; split; [assumption|reflexivity]).
  assert (A3 : all_bytes [b3] = true) by (apply all_bytes_cons; split; [assumption|reflexivity]).
  assert (A2 : all_bytes [b2; b3] = true) by (apply all_bytes_cons; split; assumption).
  destruct (int_reencode false 1 [b0] (or_introl eq_refl) A0 eq_refl) as (z0 & U0 & P0).
  destruct (int_reencode false 1 [b1] (or_introl eq_refl) A1 eq_refl) as (z1 & U1 & P1).
  destruct (int_reencode false 2 [b2; b3] (or_intror (or_introl eq_refl)) A2 eq_refl) as (z2 & U2 & P2).
  exists [("version"%string, TU 1, VInt z0); ("layer"%string, TU 1, VInt z1);
          ("position"%string, TU 2, VInt z2)].
  split.
  - cbn [fresh_fields valget_hdr map fst snd default_val unpack_fields unpack_item width firstn skipn].
    rewrite U0. cbn [bind]. rewrite U1. cbn [bind]. rewrite U2. cbn [bind]. reflexivity.
  - unfold encode. cbn [pack_fields pack_item].
    rewrite P0. cbn [bind]. rewrite P1. cbn [bind]. rewrite P2. cbn [bind app]. reflexivity.
Qed.

Lemma pack_items_cleared : forall sk its chunks,
  Forall2 (fun it ch => pack_item_cfg it = Ok (clear_reserved ch)
                        /\ unpack_item_cfg sk ch = Ok (it, List.length ch)) its chunks ->
  pack_items its = Ok (concat (map clear_reserved chunks)).
Proof.
  intros sk its chunks H. apply pack_items_ok.
  induction H as [|it ch its chunks [Hp _] _ IH]; cbn [map]; constructor; assumption.
Qed.

Lemma valget_reencode_spec : forall sk data,
  all_bytes data = true -> (4 <= List.length data)%nat ->
  valget_reencode sk data = Raise ValueError
  \/ exists chunks tail,
       data = firstn 4 data ++ concat chunks ++ tail /\ (List.length tail < 4)%nat
       /\ valget_reencode sk data = Ok (firstn 4 data ++ concat (map clear_reserved chunks)).
Proof.
  intros sk data Hb Hl.
  destruct data as [|b0 [|b1 [|b2 [|b3 work]]]]; cbn [List.length] in Hl; try lia.
  apply all_bytes_cons in Hb as [H0 Hb]. apply all_bytes_cons in Hb as [H1 Hb].
  apply all_bytes_cons in Hb as [H2 Hb]. apply all_bytes_cons in Hb as [H3 Hb].
  destruct (valget_hdr_roundtrip b0 b1 b2 b3 work H0 H1 H2 H3) as (h & Hu & He).
  unfold valget_reencode, valget_decode. rewrite Hu. cbn [bind firstn].
  destruct (valget_items_ok sk work Hb) as [Hr | (its & chunks & tail & Hr & Hw & Ht & Hf)].
  - left. rewrite Hr. reflexivity.
  - right. exists chunks, tail. rewrite Hr. cbn [bind]. rewrite He. cbn [bind].
    rewrite (pack_items_cleared sk its chunks Hf). cbn [bind].
    split; [|split; [exact Ht | reflexivity]].
    cbn [app]. rewrite <- Hw. reflexivity.
Qed.
