(* Completeness of the UBX parser on the segment grammar (props/C02.v): every stream made of
   well-formed frames, checksum-corrupted frames, over-length headers and sync-free filler is
   parsed into exactly the expected queue entries and frame count. *)
From Coq Require Import Lia ZifyBool ZifyN ZifyNat.
From Ubx Require Import Base Checksum Frame ParserUbx ParserUbxSpec ChecksumP FrameP ParserUbxP.
Ltac Zify.zify_post_hook ::= Z.to_euclidean_division_equations.

(* ------------------------------------------------------------------ phases of one frame *)
(* (1) the sync pair, from INIT or from SYNC (a lone B5 seen before), leads to CLASS with
   freshly reset registers *)
Lemma sync_phase s0 r0 q n f l :
  s0 = INIT \/ s0 = SYNC ->
  process (mkParser s0 r0 q n f) (181 :: 98 :: l) = process (mkParser CLASS regs0 q n f) l.
Proof. intros [-> | ->]; reflexivity. Qed.

(* (2) the four header bytes *)
Lemma header_phase q n f c i lo hi :
  process (mkParser CLASS regs0 q n f) [c; i; lo; hi] =
  if lo + hi * 256 =? 0
  then mkParser CRC1 (mkRegs c i (lo + hi * 256) [] 0 0 0 (ck_adds ck_reset [c; i; lo; hi])) q n f
  else if MAX_MESSAGE_LENGTH <? lo + hi * 256
  then mkParser INIT (mkRegs c i (lo + hi * 256) [] 0 0 0 (ck_adds ck_reset [c; i; lo; hi])) q n f
  else mkParser DATA (mkRegs c i (lo + hi * 256) [] 0 0 0 (ck_adds ck_reset [c; i; lo; hi])) q n f.
Proof. reflexivity. Qed.

(* (3) the payload: any bytes at all (181 and 98 included) are just data *)
Lemma data_phase : forall rest q n f c i len md ka kb o k,
  rest <> [] -> o + N.of_nat (length rest) = len ->
  process (mkParser DATA (mkRegs c i len md ka kb o k) q n f) rest
  = mkParser CRC1 (mkRegs c i len (md ++ rest) ka kb len (ck_adds k rest)) q n f.
Proof.
  induction rest as [|d t IH]; intros q n f c i len md ka kb o k Hne Hlen.
  - contradiction Hne; reflexivity.
  - rewrite process_cons. unfold step, with_rg.
    cbn [st rg queue rx filt mcls mid mlen mdata mcka mckb ofs cks].
    destruct t as [|d' t'].
    + cbn [length] in Hlen.
      destruct (o + 1 =? len) eqn:E; [|lia].
      apply N.eqb_eq in E. rewrite E. reflexivity.
    + cbn [length] in Hlen.
      destruct (o + 1 =? len) eqn:E; [lia|].
      rewrite IH; [| discriminate | cbn [length]; lia].
      rewrite <- app_assoc. reflexivity.
Qed.

(* (4) the two checksum bytes *)
Lemma crc_phase q n f c i len md ka kb o k k1 k2 :
  process (mkParser CRC1 (mkRegs c i len md ka kb o k) q n f) [k1; k2] =
  if ck_matches k k1 k2
  then if in_filter f (c, i)
       then mkParser INIT (mkRegs c i len md k1 k2 o k) (q ++ [Pkt c i md]) (n + 1) f
       else mkParser INIT (mkRegs c i len md k1 k2 o k) q (n + 1) f
  else mkParser INIT (mkRegs c i len md k1 k2 o k) (q ++ [CrcErr]) n f.
Proof. reflexivity. Qed.

(* sync + header + payload of a frame whose declared length is its real length (<= 1000):
   the parser sits in CRC1 holding the payload and the Fletcher sum of header and payload *)
Lemma frame_phase s0 r0 q n f c i pl l :
  s0 = INIT \/ s0 = SYNC -> (length pl <= 1000)%nat ->
  process (mkParser s0 r0 q n f) ([181; 98] ++ wire_hdr c i pl ++ pl ++ l) =
  process (mkParser CRC1
             (mkRegs c i (N.of_nat (length pl)) pl 0 0 (N.of_nat (length pl))
                     (fletcher (wire_hdr c i pl ++ pl))) q n f) l.
Proof.
  intros Hs Hlen. unfold wire_hdr.
  remember (N.of_nat (length pl)) as n0 eqn:Hn0.
  cbn [app]. rewrite (sync_phase _ _ _ _ _ _ Hs).
  change (c :: i :: n0 mod 256 :: n0 / 256 :: pl ++ l)
    with ([c; i; n0 mod 256; n0 / 256] ++ (pl ++ l)).
  rewrite process_app, header_phase.
  replace (n0 mod 256 + n0 / 256 * 256) with n0 by lia.
  rewrite <- fletcher_all.
  change (c :: i :: n0 mod 256 :: n0 / 256 :: pl)
    with ([c; i; n0 mod 256; n0 / 256] ++ pl).
  rewrite ck_adds_app.
  destruct (n0 =? 0) eqn:E0.
  - assert (Hpl : pl = []) by (destruct pl; [reflexivity | cbn [length] in Hn0; lia]).
    apply N.eqb_eq in E0. rewrite Hpl, E0. reflexivity.
  - unfold MAX_MESSAGE_LENGTH. destruct (1000 <? n0) eqn:E1; [lia|].
    rewrite process_app.
    rewrite (data_phase pl q n f c i n0 [] 0 0 0);
      [ reflexivity | intros ->; cbn [length] in Hn0; lia | lia ].
Qed.

(* (5) an over-length header sends the parser back to INIT after its sixth byte *)
Lemma over_phase s0 r0 q n f c i lo hi :
  s0 = INIT \/ s0 = SYNC -> 1000 < lo + 256 * hi ->
  exists r, process (mkParser s0 r0 q n f) [181; 98; c; i; lo; hi] = mkParser INIT r q n f.
Proof.
  intros Hs Hlen. rewrite (sync_phase _ _ _ _ _ _ Hs), header_phase.
  destruct (lo + hi * 256 =? 0) eqn:E0; [lia|].
  unfold MAX_MESSAGE_LENGTH. destruct (1000 <? lo + hi * 256) eqn:E1; [|lia].
  eexists. reflexivity.
Qed.

(* (6) filler without the sync pair keeps the parser hunting: in INIT or SYNC, nothing
   observable touched. From SYNC the filler must not start with 98. *)
Lemma nosync_cons a t :
  nosync (a :: t) = true -> nosync t = true /\ (a = 181 -> hd 0 t <> 98).
Proof.
  destruct t as [|b t'].
  - intros _. split; [reflexivity | intros _; cbn [hd]; lia].
  - change (nosync (a :: b :: t'))
      with (negb ((a =? 181) && (b =? 98)) && nosync (b :: t')).
    intros H. apply andb_true_iff in H. destruct H as [H1 H2].
    split; [exact H2|]. intros Ha. cbn [hd]. lia.
Qed.

Lemma junk_phase : forall g s r q n f,
  nosync g = true ->
  s = INIT \/ (s = SYNC /\ hd 0 g <> 98) ->
  exists s' r', process (mkParser s r q n f) g = mkParser s' r' q n f
                /\ (s' = INIT \/ s' = SYNC).
Proof.
  induction g as [|a t IH]; intros s r q n f Hns Hs.
  - exists s, r. split; [reflexivity | tauto].
  - apply nosync_cons in Hns. destruct Hns as [Hns Hhd].
    rewrite process_cons. destruct Hs as [-> | [-> Hne]].
    + rewrite step_INIT. destruct (a =? 181) eqn:Ea.
      * apply IH; [exact Hns | right; split; [reflexivity | apply Hhd; lia]].
      * apply IH; [exact Hns | left; reflexivity].
    + cbn [hd] in Hne. rewrite step_SYNC.
      destruct (a =? 98) eqn:E98; [lia|].
      destruct (a =? 181) eqn:Ea.
      * apply IH; [exact Hns | right; split; [reflexivity | apply Hhd; lia]].
      * apply IH; [exact Hns | left; reflexivity].
Qed.

(* ------------------------------------------------------------------ one segment *)
Definition seg_cnt (s : seg) : nat := match s with SFrame _ _ _ => 1 | _ => 0 end.

Lemma matches_self (k : ck) : ck_matches k (fst k) (snd k) = true.
Proof. apply matches_iff. destruct k; reflexivity. Qed.

Lemma seg_step s p :
  seg_ok s ->
  st p = INIT \/ (st p = SYNC /\ is_junk s = false) ->
  queue (process p (seg_bytes s)) = queue p ++ expected (filt p) s
  /\ rx (process p (seg_bytes s)) = rx p + N.of_nat (seg_cnt s)
  /\ filt (process p (seg_bytes s)) = filt p
  /\ (st (process p (seg_bytes s)) = INIT
      \/ (st (process p (seg_bytes s)) = SYNC /\ is_junk s = true)).
Proof.
  intros Hok Hst. destruct p as [s0 r0 q n f]. cbn [st queue rx filt] in Hst |- *.
  destruct s as [c i pl | c i pl k1 k2 | c i lo hi | g];
    cbn [seg_bytes seg_ok expected seg_cnt is_junk] in Hok, Hst |- *.
  - (* well-formed frame *)
    assert (Hs : s0 = INIT \/ s0 = SYNC) by tauto.
    unfold wire. cbv zeta. rewrite (frame_phase _ _ _ _ _ _ _ _ _ Hs Hok), crc_phase.
    rewrite matches_self.
    destruct (in_filter f (c, i)); cbn [st queue rx filt];
      rewrite ?app_nil_r; repeat split; auto.
  - (* checksum mismatch *)
    destruct Hok as [Hlen Hbad].
    assert (Hs : s0 = INIT \/ s0 = SYNC) by tauto.
    rewrite (frame_phase _ _ _ _ _ _ _ _ _ Hs Hlen), crc_phase.
    destruct (ck_matches (fletcher (wire_hdr c i pl ++ pl)) k1 k2) eqn:Em.
    + apply matches_iff in Em. unfold ck_value in Em. symmetry in Em. contradiction.
    + cbn [st queue rx filt]. rewrite N.add_0_r. repeat split; auto.
  - (* over-length header *)
    assert (Hs : s0 = INIT \/ s0 = SYNC) by tauto.
    destruct (over_phase s0 r0 q n f c i lo hi Hs Hok) as [r Hr]. rewrite Hr.
    cbn [st queue rx filt]. rewrite app_nil_r, N.add_0_r. repeat split; auto.
  - (* filler *)
    assert (Hs : s0 = INIT \/ (s0 = SYNC /\ hd 0 g <> 98)).
    { destruct Hst as [H | [_ H]]; [left; exact H | discriminate H]. }
    destruct (junk_phase g s0 r0 q n f Hok Hs) as (s' & r' & Hp & Hs'). rewrite Hp.
    cbn [st queue rx filt]. rewrite app_nil_r, N.add_0_r.
    repeat split; auto. destruct Hs' as [-> | ->]; auto.
Qed.

(* ------------------------------------------------------------------ the whole stream *)
Definition start_ok (p : parser) (segs : list seg) : Prop :=
  st p = INIT
  \/ (st p = SYNC /\ match segs with s :: _ => is_junk s = false | [] => True end).

Lemma count_frames_cons s t : count_frames (s :: t) = (seg_cnt s + count_frames t)%nat.
Proof. unfold count_frames. destruct s; reflexivity. Qed.

Lemma complete_segs_gen : forall segs p,
  start_ok p segs -> Forall seg_ok segs -> no_adj_junk segs = true ->
  queue (process p (flat_map seg_bytes segs)) = queue p ++ flat_map (expected (filt p)) segs
  /\ rx (process p (flat_map seg_bytes segs)) = rx p + N.of_nat (count_frames segs)
  /\ filt (process p (flat_map seg_bytes segs)) = filt p
  /\ (st (process p (flat_map seg_bytes segs)) = INIT
      \/ st (process p (flat_map seg_bytes segs)) = SYNC).
Proof.
  induction segs as [|s t IH]; intros p Hst Hok Hadj.
  - cbn [flat_map]. rewrite process_nil, app_nil_r. cbn [count_frames filter length N.of_nat].
    rewrite N.add_0_r. repeat split; auto.
    destruct Hst as [H | [H _]]; auto.
  - inversion Hok as [|s' t' Hs Ht]; subst s' t'.
    cbn [flat_map]. rewrite process_app.
    assert (Hst1 : st p = INIT \/ (st p = SYNC /\ is_junk s = false)) by exact Hst.
    destruct (seg_step s p Hs Hst1) as (Hq1 & Hn1 & Hf1 & Hs1).
    set (p1 := process p (seg_bytes s)) in *.
    assert (Hadj' : no_adj_junk t = true /\ start_ok p1 t).
    { unfold start_ok. destruct t as [|b t'].
      - split; [reflexivity | tauto].
      - change (no_adj_junk (s :: b :: t'))
          with (negb (is_junk s && is_junk b) && no_adj_junk (b :: t')) in Hadj.
        apply andb_true_iff in Hadj. destruct Hadj as [Hj Hadj]. split; [exact Hadj|].
        destruct Hs1 as [H | [H Hjs]]; [left; exact H | right; split; [exact H|]].
        rewrite Hjs in Hj. destruct (is_junk b); [discriminate Hj | reflexivity]. }
    destruct Hadj' as [Hadj' Hst'].
    destruct (IH p1 Hst' Ht Hadj') as (Hq2 & Hn2 & Hf2 & Hs2).
    rewrite Hq2, Hn2, Hf2, Hf1, Hq1, Hn1, count_frames_cons, <- app_assoc.
    repeat split; auto. lia.
Qed.

Lemma complete_segs : forall segs p,
  st p = INIT -> Forall seg_ok segs -> no_adj_junk segs = true ->
  let p' := process p (flat_map seg_bytes segs) in
  queue p' = queue p ++ flat_map (expected (filt p)) segs
  /\ rx p' = rx p + N.of_nat (count_frames segs)
  /\ filt p' = filt p
  /\ (st p' = INIT \/ st p' = SYNC).
Proof.
  intros segs p Hst Hok Hadj p'. subst p'.
  apply complete_segs_gen; [left; exact Hst | exact Hok | exact Hadj].
Qed.

Lemma complete_chunked : forall segs chunks p,
  st p = INIT -> Forall seg_ok segs -> no_adj_junk segs = true ->
  concat chunks = flat_map seg_bytes segs ->
  let p' := fold_left process chunks p in
  queue p' = queue p ++ flat_map (expected (filt p)) segs
  /\ rx p' = rx p + N.of_nat (count_frames segs).
Proof.
  intros segs chunks p Hst Hok Hadj Hc p'. subst p'.
  rewrite chunks_indep_ubx, Hc.
  destruct (complete_segs segs p Hst Hok Hadj) as (Hq & Hn & _).
  split; [exact Hq | exact Hn].
Qed.

Lemma complete_nonvacuous :
  let segs := [SJunk [36; 71; 181]; SFrame 6 1 [181; 98; 0]; SBad 5 1 [6; 1] 0 0;
               SOver 1 2 233 3; SJunk [98; 98; 181]; SFrame 181 98 []] in
  Forall seg_ok segs /\ no_adj_junk segs = true
  /\ queue (process (fresh (Some [(6, 1); (181, 98)])) (flat_map seg_bytes segs))
     = [Pkt 6 1 [181; 98; 0]; CrcErr; Pkt 181 98 []].
Proof.
  intros segs. subst segs. split; [|split].
  - repeat apply Forall_cons; try apply Forall_nil; cbn [seg_ok length].
    + reflexivity.
    + lia.
    + split; [lia | vm_compute; discriminate].
    + lia.
    + reflexivity.
    + lia.
  - reflexivity.
  - vm_compute. reflexivity.
Qed.
