(* Proofs about the Checksum model: it is the 8-bit Fletcher sum for every byte list. *)
From Coq Require Import Lia ZifyBool ZifyN.
From Ubx Require Import Base Checksum.
Ltac Zify.zify_post_hook ::= Z.to_euclidean_division_equations.

Lemma land255 x : N.land x 255 = x mod 256.
Proof. change 255 with (N.ones 8). rewrite N.land_ones. reflexivity. Qed.

Lemma ck_add_mod a b x :
  ck_add (a, b) x = ((a + x) mod 256, (b + (a + x) mod 256) mod 256).
Proof. unfold ck_add; cbn [fst snd]. rewrite !land255. reflexivity. Qed.

Lemma sum_cons x t : sum (x :: t) = x + sum t.
Proof. reflexivity. Qed.

(* General fold lemma from any state with components already reduced. *)
Lemma ck_adds_gen l : forall a b,
  ck_adds (a mod 256, b mod 256) l =
  ((a + sum l) mod 256, (b + sum (cka_seq (a mod 256) l)) mod 256).
Proof.
  induction l as [|x t IH]; intros a b.
  - cbn. rewrite !N.add_0_r. reflexivity.
  - cbn [ck_adds fold_left]. rewrite ck_add_mod.
    change (fold_left ck_add t ?s) with (ck_adds s t).
    rewrite (IH (a mod 256 + x) (b mod 256 + (a mod 256 + x) mod 256)).
    cbn [cka_seq]. rewrite !sum_cons.
    generalize (sum t) as T; intro T.
    generalize (sum (cka_seq ((a mod 256 + x) mod 256) t)) as S; intro S.
    f_equal; lia.
Qed.

Theorem fletcher_all l : ck_adds ck_reset l = fletcher l.
Proof.
  unfold ck_reset, fletcher.
  change (0, 0) with (0 mod 256, 0 mod 256).
  rewrite ck_adds_gen. rewrite !N.add_0_l. reflexivity.
Qed.

(* Range: after at least one add (from any state, even an out-of-range one) both
   values are in 0..255; reset gives (0,0). *)
Lemma ck_add_range s x : fst (ck_add s x) < 256 /\ snd (ck_add s x) < 256.
Proof. destruct s as [a b]. rewrite ck_add_mod. cbn [fst snd]. split; apply N.mod_lt; lia. Qed.

Definition ck_inrange (s : ck) : Prop := fst s < 256 /\ snd s < 256.

Lemma ck_adds_range l : forall s, ck_inrange s -> ck_inrange (ck_adds s l).
Proof.
  induction l as [|x t IH]; intros s Hs; [exact Hs|].
  cbn [ck_adds fold_left]. apply IH. apply ck_add_range.
Qed.

Theorem range_all l : ck_inrange (ck_adds ck_reset l).
Proof. apply ck_adds_range. unfold ck_inrange, ck_reset; cbn; lia. Qed.

Theorem matches_iff s a b : ck_matches s a b = true <-> ck_value s = (a, b).
Proof.
  destruct s as [x y]. unfold ck_matches, ck_value; cbn [fst snd].
  rewrite andb_true_iff, !N.eqb_eq. split; [intros [-> ->]; reflexivity | intros H; inversion H; auto].
Qed.

(* History independence: whatever was absorbed before, reset then l gives fletcher l. *)
Theorem reset_any (prior : ck) l : ck_value (ck_adds ck_reset l) = fletcher l.
Proof. apply fletcher_all. Qed.

(* Every in-range state is reached from reset by a two-byte prefix. *)
Theorem reach2 a b : a < 256 -> b < 256 ->
  exists x y, x < 256 /\ y < 256 /\ ck_adds ck_reset [x; y] = (a, b).
Proof.
  intros Ha Hb.
  exists ((256 + b - a) mod 256), ((512 + 2 * a - b) mod 256).
  split; [apply N.mod_lt; lia|]. split; [apply N.mod_lt; lia|].
  unfold ck_adds, ck_reset. cbn [fold_left]. rewrite !ck_add_mod. cbn [fst snd].
  f_equal; lia.
Qed.

(* Dependence on the sequence only, stated for the step function: the state after
   s ++ [x] is ck_add of the state after s. (Trivial by fold_left_app; recorded because
   the exhaustive step sweep in the correspondence relies on it.) *)
Lemma ck_adds_snoc s l x : ck_adds s (l ++ [x]) = ck_add (ck_adds s l) x.
Proof. unfold ck_adds. rewrite fold_left_app. reflexivity. Qed.

Example fletcher_nontrivial :
  ck_adds ck_reset [6; 1; 2; 0; 181; 98] = fletcher [6; 1; 2; 0; 181; 98]
  /\ fletcher [6; 1; 2; 0; 181; 98] = (32, 253).
Proof. split; vm_compute; reflexivity. Qed.
