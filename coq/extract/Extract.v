(* Extraction of the executable models and specs to OCaml (ExtrOcamlBasic only). *)
From Coq Require Import Extraction ExtrOcamlBasic.
From Ubx Require Import Fields Base Checksum Frame ParserUbx ParserNmea CfgKeys FieldsSpec UbloxSpec Request ScriptBackend Backends LineBackend Helpers Render Scan ScanBackend Gpsd.
Extraction Language OCaml.
Extraction "model.ml"
  N.add N.mul N.div N.modulo N.of_nat N.to_nat N.eqb N.ltb
  Z.add Z.mul Z.div Z.modulo Z.opp Z.of_N Z.to_N Z.eqb Z.ltb Z.of_nat
  ck_reset ck_add ck_adds ck_matches fletcher
  new_frame to_bytes wire
  fresh run process nfresh nprocess nrestart count_sentences
  decode encode setf getf fresh_fields unpack_fields pack_fields
  oracle_decode oracle_zero_reserved
  run_requests run_requests_line run_requests_gpsd new_srv base_registry
  tty_transmit tty_recover gpsd_transmit hexlify
  render_frame render_cfg
  scan scan_backend parse_chunks ginit enable_loop cmd_header
  enable_gnss disable_gnss gps_glonass gps_galileo_beidou set_rate_in_hz cfg_save cfg_reset
  warm_start cold_start rst_start rst_stop esfla_set lever_arm set_datetime sos_backup sos_clear
  pack_item_cfg unpack_item_cfg from_key valset_payload valget_poll_payload valget_decode valget_reencode.
