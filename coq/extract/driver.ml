(* Driver for the extracted models: one command per input line, one result per output line.
   Hand-written glue (trusted base): number/hex/string conversion and result printing. *)
module M = Model

(* ---- conversions ---------------------------------------------------------- *)
let rec pos_of_int (i : int) : M.positive =
  if i = 1 then M.XH
  else if i land 1 = 0 then M.XO (pos_of_int (i lsr 1))
  else M.XI (pos_of_int (i lsr 1))
let n_of_int (i : int) : M.n = if i = 0 then M.N0 else M.Npos (pos_of_int i)
let rec int_of_pos = function
  | M.XH -> 1 | M.XO p -> 2 * int_of_pos p | M.XI p -> 2 * int_of_pos p + 1
let int_of_n = function M.N0 -> 0 | M.Npos p -> int_of_pos p
let rec nat_of_int i = if i = 0 then M.O else M.S (nat_of_int (i - 1))
let rec int_of_nat = function M.O -> 0 | M.S k -> 1 + int_of_nat k

(* arbitrary-size decimal <-> Z via the extracted arithmetic *)
let z_of_int (i : int) : M.z =
  if i = 0 then M.Z0 else if i > 0 then M.Zpos (pos_of_int i) else M.Zneg (pos_of_int (-i))
let z10 = z_of_int 10
let z_of_string (s : string) : M.z =
  let neg = String.length s > 0 && s.[0] = '-' in
  let start = if neg then 1 else 0 in
  let acc = ref M.Z0 in
  for k = start to String.length s - 1 do
    acc := M.Z.add (M.Z.mul !acc z10) (z_of_int (Char.code s.[k] - 48))
  done;
  if neg then M.Z.opp !acc else !acc
let rec pos_digits (z : M.z) (acc : string) : string =
  match z with
  | M.Z0 -> if acc = "" then "0" else acc
  | _ ->
    let q = M.Z.div z z10 and r = M.Z.modulo z z10 in
    let d = (match r with M.Z0 -> 0 | M.Zpos p -> int_of_pos p | M.Zneg _ -> assert false) in
    if q = M.Z0 then (string_of_int d) ^ acc else pos_digits q (string_of_int d ^ acc)
let string_of_z (z : M.z) : string =
  match z with
  | M.Zneg p -> "-" ^ pos_digits (M.Zpos p) ""
  | _ -> pos_digits z ""
let n_of_string s = M.Z.to_N (z_of_string s)
let string_of_n n = string_of_z (M.Z.of_N n)

let hexval c =
  match c with
  | '0'..'9' -> Char.code c - 48
  | 'a'..'f' -> Char.code c - 87
  | 'A'..'F' -> Char.code c - 55
  | _ -> failwith "hex"
(* "-" denotes the empty byte string *)
let bytes_of_hex (s : string) : M.n list =
  if s = "-" then [] else begin
    let n = String.length s / 2 in
    let rec go k acc = if k < 0 then acc
      else go (k - 1) (n_of_int (16 * hexval s.[2*k] + hexval s.[2*k+1]) :: acc) in
    go (n - 1) []
  end
let hex_of_bytes (l : M.n list) : string =
  if l = [] then "-" else begin
    let b = Buffer.create 64 in
    List.iter (fun x -> Buffer.add_string b (Printf.sprintf "%02x" (int_of_n x))) l;
    Buffer.contents b
  end

(* Coq string <-> OCaml string *)
let ascii_of_char (c : char) : M.ascii =
  let k = Char.code c in
  let b i = (k lsr i) land 1 = 1 in
  M.Ascii (b 0, b 1, b 2, b 3, b 4, b 5, b 6, b 7)
let char_of_ascii (M.Ascii (b0,b1,b2,b3,b4,b5,b6,b7)) : char =
  let v b i = if b then 1 lsl i else 0 in
  Char.chr (v b0 0 + v b1 1 + v b2 2 + v b3 3 + v b4 4 + v b5 5 + v b6 6 + v b7 7)
let cstring (s : string) : M.string =
  let rec go k acc = if k < 0 then acc else go (k - 1) (M.String (ascii_of_char s.[k], acc)) in
  go (String.length s - 1) M.EmptyString
let rec ostring (s : M.string) : string =
  match s with M.EmptyString -> "" | M.String (a, t) -> String.make 1 (char_of_ascii a) ^ ostring t

let exn_name = function
  | M.ValueError -> "ValueError" | M.StructError -> "StructError" | M.KeyError -> "KeyError"
  | M.IndexError -> "IndexError" | M.TypeError -> "TypeError" | M.AttributeError -> "AttributeError"
  | M.AssertionError -> "AssertionError" | M.UnicodeError -> "UnicodeError"

let split c s = if s = "" then [] else String.split_on_char c s
let bool_of_string01 s = (s = "1")

(* ---- layouts and fields ----------------------------------------------------- *)
(* type token: U1 U2 U4 I1 I2 I4 X1 X2 X4 P<n> C<n> *)
let fty_of_string (s : string) : M.fty =
  let k = int_of_string (String.sub s 1 (String.length s - 1)) in
  match s.[0] with
  | 'U' -> M.TU (nat_of_int k) | 'I' -> M.TI (nat_of_int k) | 'X' -> M.TX (nat_of_int k)
  | 'P' -> M.TPad (nat_of_int k) | 'C' -> M.TCh (nat_of_int k)
  | _ -> failwith "fty"
let string_of_fty = function
  | M.TU w -> "U" ^ string_of_int (int_of_nat w) | M.TI w -> "I" ^ string_of_int (int_of_nat w)
  | M.TX w -> "X" ^ string_of_int (int_of_nat w) | M.TPad w -> "P" ^ string_of_int (int_of_nat w)
  | M.TCh w -> "C" ^ string_of_int (int_of_nat w)
(* layout: name:type,name:type ; "-" = empty *)
let layout_of_string (s : string) : M.layout =
  if s = "-" then [] else
  List.map (fun nt -> match split ':' nt with
    | [n; t] -> (cstring n, fty_of_string t) | _ -> failwith "layout") (split ',' s)
(* value token: i<decimal> | s<hex> *)
let fval_of_string (s : string) : M.fval =
  let r = String.sub s 1 (String.length s - 1) in
  if s.[0] = 'i' then M.VInt (z_of_string r) else M.VStr (bytes_of_hex r)
let string_of_fval = function
  | M.VInt z -> "i" ^ string_of_z z
  | M.VStr b -> "s" ^ hex_of_bytes b
(* fields: name:type:value,... *)
let fields_of_string (s : string) : M.fields =
  if s = "-" then [] else
  List.map (fun x -> match split ':' x with
    | [n; t; v] -> ((cstring n, fty_of_string t), fval_of_string v) | _ -> failwith "fields") (split ',' s)
let string_of_fields (fs : M.fields) : string =
  if fs = [] then "-" else
  String.concat "," (List.map (fun ((n, t), v) ->
    ostring n ^ ":" ^ string_of_fty t ^ ":" ^ string_of_fval v) fs)
(* kind: F/<layout>  |  K/<hdr>/<count>/<max or ->/<blk>  |  V *)
let kind_of_string (s : string) : M.mkind =
  match split '/' s with
  | ["F"; l] -> M.KFixed (layout_of_string l)
  | ["K"; h; c; m; b] ->
    M.KCounted (layout_of_string h, cstring c,
                (if m = "-" then None else Some (n_of_string m)), layout_of_string b)
  | ["V"] -> M.KMonVer
  | _ -> failwith "kind"

let show_res (f : 'a -> string) (r : 'a M.res) : string =
  match r with M.Ok a -> f a | M.Raise e -> "!" ^ exn_name e

(* ---- UBX parser ops ----------------------------------------------------------- *)
let cid_of_string s = match split '.' s with
  | [c; i] -> (n_of_int (int_of_string c), n_of_int (int_of_string i)) | _ -> failwith "cid"
let cids_of_string s = if s = "-" then [] else List.map cid_of_string (split ',' s)
let op_of_string (s : string) : M.op =
  match split ':' s with
  | ["P"; h] -> M.OProcess (bytes_of_hex h)
  | ["F"; c] -> M.OSetFilter (cid_of_string c)
  | ["FS"; l] -> M.OSetFilters (cids_of_string l)
  | ["E"] -> M.OEmptyQueue
  | ["K"] -> M.OPacket
  | ["R"] -> M.ORestart
  | _ -> failwith ("op " ^ s)
let string_of_pkt = function
  | M.Pkt (c, i, p) -> Printf.sprintf "pkt.%d.%d.%s" (int_of_n c) (int_of_n i) (hex_of_bytes p)
  | M.CrcErr -> "crc"
let string_of_out = function
  | M.ONone -> "_"
  | M.OPkt None -> "none"
  | M.OPkt (Some p) -> string_of_pkt p
let filter_of_string s : M.cid list option =
  if s = "N" then None else Some (cids_of_string s)

(* ---- cfg items ------------------------------------------------------------------ *)
let cval_of_string s : M.cval =
  if s = "N" then M.CNone else if s = "T" then M.CBool true else if s = "F" then M.CBool false
  else M.CInt (z_of_string s)
let string_of_cval = function
  | M.CNone -> "N" | M.CBool true -> "T" | M.CBool false -> "F" | M.CInt z -> string_of_z z
(* item: g.i.bits.signed.value *)
let item_of_string s : M.item =
  match split '.' s with
  | [g; i; b; sg; v] -> { M.it_group = z_of_string g; it_item = z_of_string i; it_bits = z_of_string b;
                          it_signed = bool_of_string01 sg; it_value = cval_of_string v }
  | _ -> failwith "item"
let string_of_item (it : M.item) : string =
  Printf.sprintf "%s.%s.%s.%s.%s" (string_of_z it.M.it_group) (string_of_z it.M.it_item)
    (string_of_z it.M.it_bits) (if it.M.it_signed then "1" else "0") (string_of_cval it.M.it_value)
let nlist_of_string s = if s = "-" then [] else List.map n_of_string (split ',' s)
let zlist_of_string s = if s = "-" then [] else List.map z_of_string (split ',' s)

(* ---- requests ------------------------------------------------------------------- *)
(* rkind: kindspec | G | - (dummy) *)
let rkind_of_string s : M.rkind =
  if s = "G" then M.RValGet else if s = "-" then M.RK (M.KFixed []) else M.RK (kind_of_string s)
(* request: op|cls.id|body|respname|respkind   body: F=<fields> | S=<item;item> | G=<keys> *)
let request_of_string (s : string) : M.rop * M.request =
  match split '|' s with
  | [op; c; body; rn; rk] ->
    let o = (match op with "poll" -> M.RPoll | "set" -> M.RSet | "mga" -> M.RSetMga | "fire" -> M.RFire
                          | _ -> failwith "rop") in
    let b = (match body.[0] with
        | 'F' -> M.BFields (fields_of_string (String.sub body 2 (String.length body - 2)))
        | 'S' -> M.BValSet (List.map item_of_string (split ';' (String.sub body 2 (String.length body - 2))))
        | 'G' -> M.BValGetPoll (zlist_of_string (String.sub body 2 (String.length body - 2)))
        | _ -> failwith "body") in
    (o, { M.rq_cid = cid_of_string c; rq_body = b; rq_resp = (cstring rn, rkind_of_string rk) })
  | _ -> failwith "request"
(* rx event: <hex or N or E(mpty bytes)>@dt *)
let rxev_of_string s =
  match split '@' s with
  | [d; dt] -> ((if d = "N" then None else if d = "E" then Some [] else Some (bytes_of_hex d)), n_of_string dt)
  | _ -> failwith "rxev"
let rxevs_of_string s = if s = "-" then [] else List.map rxev_of_string (split ',' s)
(* script: pending/attempt/attempt...   attempt = ok:evs *)
let script_of_string (idle : string) (s : string) : M.script =
  match split '/' s with
  | pend :: atts ->
    { M.pending = rxevs_of_string pend;
      future = List.map (fun a -> match split ':' a with
          | [ok; evs] -> (bool_of_string01 ok, rxevs_of_string evs) | _ -> failwith "attempt") atts;
      idle_dt = n_of_string idle }
  | _ -> failwith "script"
let string_of_decoded = function
  | M.DFields fs -> string_of_fields fs
  | M.DValGet (h, its) -> string_of_fields h ^ "+" ^ String.concat "+" (List.map string_of_item its)
let string_of_rframe (f : M.rframe) =
  Printf.sprintf "%s:%s:%s" (ostring f.M.rf_name) (hex_of_bytes f.M.rf_payload) (string_of_decoded f.M.rf_dec)
let string_of_outcome = function
  | M.Return None -> "ret=None" | M.Return (Some f) -> "ret=" ^ string_of_rframe f
  | M.Raised e -> "exn=" ^ exn_name e | M.OutOfFuel -> "fuel"
let string_of_event = function
  | M.Tx (d, ok) -> "T" ^ hex_of_bytes d ^ (if ok then "+" else "!")
  | M.Rx (None, dt) -> "RN@" ^ string_of_n dt
  | M.Rx (Some d, dt) -> "R" ^ hex_of_bytes d ^ "@" ^ string_of_n dt
  | M.Flush -> "F" | M.Recover -> "V"

(* ---- json (C20): n | t | f | z | s<hex> | a(v,v) | o(<hexkey>=v,...) ------------------ *)
let ostring_of_hex h = String.concat "" (List.map (fun n -> String.make 1 (Char.chr (int_of_n n))) (bytes_of_hex h))
let parse_json (s : string) : M.json =
  let pos = ref 0 in
  let peek () = s.[!pos] in
  let adv () = incr pos in
  let rec until_any stops acc =
    if !pos >= String.length s || List.mem s.[!pos] stops then acc
    else begin let c = s.[!pos] in adv (); until_any stops (acc ^ String.make 1 c) end in
  let rec value () : M.json =
    match peek () with
    | 'n' -> adv (); M.JNum
    | 't' -> adv (); M.JBool true
    | 'f' -> adv (); M.JBool false
    | 'z' -> adv (); M.JNull
    | 's' -> adv (); let h = until_any [','; ')'; '='] "" in M.JStr (cstring (ostring_of_hex h))
    | 'a' -> adv (); adv (); (* '(' *)
      let items = ref [] in
      if peek () = ')' then adv ()
      else begin
        let continue = ref true in
        while !continue do
          items := value () :: !items;
          if peek () = ',' then adv () else begin adv (); continue := false end
        done
      end;
      M.JArr (List.rev !items)
    | 'o' -> adv (); adv ();
      let items = ref [] in
      if peek () = ')' then adv ()
      else begin
        let continue = ref true in
        while !continue do
          let k = until_any ['='] "" in
          adv ();
          let v = value () in
          items := (cstring (ostring_of_hex k), v) :: !items;
          if peek () = ',' then adv () else begin adv (); continue := false end
        done
      end;
      M.JObj (List.rev !items)
    | _ -> failwith "json"
  in value ()
let line_of_string s : M.line = if s = "X" then M.NotJson else M.J (parse_json s)
let chunk_of_string s : M.chunk =
  if s = "U" then M.Undecodable
  else M.Lines (List.map line_of_string (split ';' (String.sub s 2 (String.length s - 2))))
let rec string_of_json = function
  | M.JNum -> "n" | M.JBool true -> "t" | M.JBool false -> "f" | M.JNull -> "z"
  | M.JStr s -> "s:" ^ ostring s
  | M.JArr l -> "a(" ^ String.concat "," (List.map string_of_json l) ^ ")"
  | M.JObj l -> "o(" ^ String.concat "," (List.map (fun (k, v) -> ostring k ^ "=" ^ string_of_json v) l) ^ ")"

(* ---- commands ------------------------------------------------------------------- *)
let handle (line : string) : string =
  match List.filter (fun t -> t <> "") (split ' ' line) with
  | ["ck"; h] ->
    let (a, b) = M.ck_adds M.ck_reset (bytes_of_hex h) in
    Printf.sprintf "%d %d" (int_of_n a) (int_of_n b)
  | ["fletcher"; h] ->
    let (a, b) = M.fletcher (bytes_of_hex h) in
    Printf.sprintf "%d %d" (int_of_n a) (int_of_n b)
  | ["ckstep"; a; b; x] ->
    let (a', b') = M.ck_add (n_of_string a, n_of_string b) (n_of_string x) in
    Printf.sprintf "%s %s" (string_of_n a') (string_of_n b')
  | ["cksweep"] ->
    (* all 65536 states x 256 bytes: md5 over (a',b') pairs in lexicographic (a,b,x) order *)
    let buf = Buffer.create (1 lsl 25) in
    for a = 0 to 255 do for b = 0 to 255 do
      let s = (n_of_int a, n_of_int b) in
      for x = 0 to 255 do
        let (a', b') = M.ck_add s (n_of_int x) in
        Buffer.add_char buf (Char.chr (int_of_n a')); Buffer.add_char buf (Char.chr (int_of_n b'))
      done done done;
    Digest.to_hex (Digest.string (Buffer.contents buf))
  | ["tobytes"; c; i; h] ->
    let f = M.new_frame (n_of_string c) (n_of_string i) (bytes_of_hex h) in
    let (m1, f1) = M.to_bytes f in
    let (m2, f2) = M.to_bytes f1 in
    Printf.sprintf "%s %s %s" (hex_of_bytes m1) (hex_of_bytes m2) (hex_of_bytes f2.M.fr_data)
  | ["wire"; c; i; h] ->
    hex_of_bytes (M.wire (n_of_string c) (n_of_string i) (bytes_of_hex h))
  | "ubx" :: filt :: ops ->
    let p0 = M.fresh (filter_of_string filt) in
    let (p, outs) = M.run p0 (List.map op_of_string ops) in
    let outs = List.filter (fun o -> o <> M.ONone) outs in
    Printf.sprintf "rx=%s q=[%s] out=[%s]" (string_of_n p.M.rx)
      (String.concat " " (List.map string_of_pkt p.M.queue))
      (String.concat " " (List.map string_of_out outs))
  | "nmea" :: ops ->
    let p = List.fold_left (fun p o ->
      match split ':' o with
      | ["P"; h] -> M.nprocess p (bytes_of_hex h)
      | ["R"] -> M.nrestart p
      | _ -> failwith "nmea op") M.nfresh ops in
    Printf.sprintf "rx=%s" (string_of_n p.M.nrx)
  | ["nmeacount"; h] -> string_of_n (M.count_sentences (bytes_of_hex h))
  | ["dec"; k; h] ->
    show_res string_of_fields (M.decode (kind_of_string k) (bytes_of_hex h))
  | ["decenc"; k; h] ->
    (match M.decode (kind_of_string k) (bytes_of_hex h) with
     | M.Ok fs -> show_res hex_of_bytes (M.encode fs)
     | M.Raise e -> "!" ^ exn_name e)
  | ["decsetenc"; k; h; name; v] ->
    (match M.decode (kind_of_string k) (bytes_of_hex h) with
     | M.Ok fs -> show_res hex_of_bytes (M.encode (M.setf fs (cstring name) (fval_of_string v)))
     | M.Raise e -> "!" ^ exn_name e)
  | ["specdec"; name; h] ->
    (match M.oracle_decode (cstring name) (bytes_of_hex h) with
     | Some fs -> string_of_fields fs | None -> "undefined")
  | ["speczr"; name; h] ->
    (match M.oracle_zero_reserved (cstring name) (bytes_of_hex h) with
     | Some b -> hex_of_bytes b | None -> "undefined")
  | "reqs" :: sk :: retries :: delay :: idle :: script :: reqs ->
    let w = { M.wsrv = M.new_srv (nat_of_int (int_of_string retries)) (n_of_string delay);
              wenv = script_of_string idle script; wnow = M.N0; wtrace = []; wtie = false } in
    let rs = M.run_requests (nlist_of_string sk) (nat_of_int 200000) (List.map request_of_string reqs) w in
    String.concat " ;; " (List.map (fun (((o, tr), dt), tie) ->
        Printf.sprintf "%s dt=%s%s trace=%s" (string_of_outcome o) (string_of_n dt) (if tie then " TIE" else "")
          (String.concat "," (List.map string_of_event tr))) rs)
  | "reqsgpsd" :: sk :: retries :: delay :: idle :: script :: reqs ->
    let w = { M.wsrv = M.new_srv (nat_of_int (int_of_string retries)) (n_of_string delay);
              wenv = script_of_string idle script; wnow = M.N0; wtrace = []; wtie = false } in
    let rs = M.run_requests_gpsd (nlist_of_string sk) (nat_of_int 200000) (List.map request_of_string reqs) w in
    String.concat " ;; " (List.map (fun (((o, tr), dt), tie) ->
        Printf.sprintf "%s dt=%s%s trace=%s" (string_of_outcome o) (string_of_n dt) (if tie then " TIE" else "")
          (String.concat "," (List.map string_of_event tr))) rs)
  | "reqsline" :: b0 :: brx :: sk :: retries :: delay :: idle :: script :: reqs ->
    let line = { M.l_port = { M.p_open = true; p_baud = z_of_string b0; p_baud_log = [] }; l_rxbaud = z_of_string brx;
                 l_script = script_of_string idle script; l_out = []; l_got = [] } in
    let w = { M.wsrv = M.new_srv (nat_of_int (int_of_string retries)) (n_of_string delay);
              wenv = line; wnow = M.N0; wtrace = []; wtie = false } in
    let rs = M.run_requests_line (nlist_of_string sk) (nat_of_int 200000) (List.map request_of_string reqs) w in
    String.concat " ;; " (List.map (fun (((((o, tr), dt), tie), baud), sent) ->
        Printf.sprintf "%s dt=%s%s port=%s/%d trace=%s" (string_of_outcome o) (string_of_n dt) (if tie then " TIE" else "") (string_of_z baud) (int_of_nat sent)
          (String.concat "," (List.map string_of_event tr))) rs)
  | ["ttytx"; written; h] ->
    let (d, ok) = M.tty_transmit (z_of_string written) (bytes_of_hex h) in
    Printf.sprintf "%s %s" (hex_of_bytes d) (if ok then "True" else "False")
  | ["ttyrecover"; op; baud] ->
    (match M.tty_recover { M.p_open = bool_of_string01 op; p_baud = z_of_string baud; p_baud_log = [] } with
     | M.Ok p -> Printf.sprintf "open=%s baud=%s log=%s" (if p.M.p_open then "1" else "0") (string_of_z p.M.p_baud)
                   (String.concat "," (List.map string_of_z p.M.p_baud_log))
     | M.Raise e -> "!" ^ exn_name e)
  | ["gpsdtx"; dev; h; reply] ->
    let r = if reply = "ERR" then M.GSockError else M.GReply (bytes_of_hex reply) in
    let (cmd, ok) = M.gpsd_transmit (bytes_of_hex dev) (bytes_of_hex h) r in
    Printf.sprintf "%s %s" (hex_of_bytes cmd) (show_res (fun b -> if b then "True" else "False") ok)
  | "helper" :: fs :: name :: args ->
    let fs = fields_of_string fs in
    let z k = z_of_string (List.nth args k) in
    let show fs' = string_of_fields fs' ^ " " ^ show_res hex_of_bytes (M.encode fs') in
    (match name with
     | "enable" -> show_res show (M.enable_gnss fs (z 0))
     | "disable" -> show_res show (M.disable_gnss fs (z 0))
     | "gps_glonass" -> show_res show (M.gps_glonass fs)
     | "gps_galileo_beidou" -> show_res show (M.gps_galileo_beidou fs)
     | "rate" -> show_res show (M.set_rate_in_hz fs (z 0))
     | "save" -> show (M.cfg_save fs (z 0))
     | "reset" -> show (M.cfg_reset fs (z 0))
     | "warm" -> show (M.warm_start fs) | "cold" -> show (M.cold_start fs)
     | "start" -> show (M.rst_start fs) | "stop" -> show (M.rst_stop fs)
     | "esfla" -> show_res show (M.esfla_set fs (z 0) (z 1) (z 2) (z 3))
     | "lever" -> show_res (function None -> "None"
                                   | Some ((x, y), zz) -> Printf.sprintf "%s,%s,%s" (string_of_z x) (string_of_z y) (string_of_z zz))
                    (M.lever_arm fs (z 0))
     | "datetime" -> show (M.set_datetime fs (z 0) (z 1) (z 2) (z 3) (z 4) (z 5))
     | "backup" -> show (M.sos_backup fs) | "clear" -> show (M.sos_clear fs)
     | _ -> failwith "helper")
  | ["render"; tabs; name; fs] ->
    let tables = if tabs = "-" then [] else List.map (fun x -> match split ':' x with
        | [n; l] -> (cstring n, nat_of_int (int_of_string l)) | _ -> failwith "tables") (split ',' tabs) in
    let rcls_of = function
      | "plain" -> M.RPlain | "hex" -> M.RHex | "proto" -> M.RProto | "mode" -> M.RMode | "lever" -> M.RLever
      | "gnssid" -> M.RGnssId | "flagsen" -> M.RFlagsEn | "algflags" -> M.RAlgFlags | "init1" -> M.RInit1
      | "init2" -> M.RInit2 | "fusion" -> M.RFusion | "sens1" -> M.RSens1 | "sens2" -> M.RSens2
      | "gpsfix" -> M.RGpsFix | "navflags" -> M.RNavFlags | _ -> failwith "rcls" in
    let rfs = if fs = "-" then [] else List.map (fun x -> match split ':' x with
        | [n; t; c; v; k] -> ((((cstring n, fty_of_string t), rcls_of c), fval_of_string v), n_of_string k)
        | _ -> failwith "rfield") (split ',' fs) in
    show_res (fun toks ->
        "ok " ^ String.concat "," (List.filter_map (function
            | M.TName s -> Some ("N=" ^ ostring s) | M.TField s -> Some (ostring s) | _ -> None) toks))
      (M.render_frame tables (cstring name) rfs)
  | ["rendercfg"; it] ->
    show_res (fun _ -> "ok") (M.render_cfg (item_of_string it))
  | ["scan"; interval; idle; evs] ->
    let sc = { M.pending = rxevs_of_string evs; future = []; idle_dt = n_of_string idle } in
    let (r, w) = M.scan M.scan_backend (nat_of_int 200000) (n_of_string interval) sc M.N0 in
    Printf.sprintf "%s t=%s reads=%d" (match r with M.ScanTrue -> "True" | M.ScanNone -> "None" | M.ScanFuel -> "fuel")
      (string_of_n w.M.sc_now) (List.length w.M.sc_rx)
  | "gpsd" :: req :: chunks ->
    let r = if req = "-" then None else Some (cstring (ostring_of_hex req)) in
    show_res (fun g ->
        Printf.sprintf "sel=%s enabled=%s release=%s"
          (match g.M.g_sel with None -> "None" | Some d -> ostring d)
          (if g.M.g_enabled then "True" else "False")
          (match g.M.g_release with None -> "None" | Some j -> string_of_json j))
      (M.parse_chunks (M.ginit r) (List.map chunk_of_string chunks))
  | "gpsdenable" :: req :: chunks ->
    let r = if req = "-" then None else Some (cstring (ostring_of_hex req)) in
    show_res (fun (g, rest) ->
        Printf.sprintf "sel=%s enabled=%s unread=%d header=%s"
          (match g.M.g_sel with None -> "None" | Some d -> ostring d)
          (if g.M.g_enabled then "True" else "False")
          (List.length rest)
          (match M.cmd_header g with None -> "None" | Some h -> ostring h))
      (M.enable_loop (M.ginit r) (List.map chunk_of_string chunks))
  | ["enc"; fs] ->
    show_res hex_of_bytes (M.encode (fields_of_string fs))
  | ["cpack"; it] ->
    show_res hex_of_bytes (M.pack_item_cfg (item_of_string it))
  | ["cunpack"; sk; h] ->
    show_res (fun (it, n) -> string_of_item it ^ " " ^ string_of_int (int_of_nat n))
      (M.unpack_item_cfg (nlist_of_string sk) (bytes_of_hex h))
  | ["cfromkey"; sk; key; v] ->
    let it = M.from_key (nlist_of_string sk) (n_of_string key) (cval_of_string v) in
    string_of_item it ^ " " ^ show_res hex_of_bytes (M.pack_item_cfg it)
  | "valset" :: items ->
    show_res hex_of_bytes (M.valset_payload (List.map item_of_string items))
  | ["valgetpoll"; keys] ->
    show_res hex_of_bytes (M.valget_poll_payload (zlist_of_string keys))
  | ["valgetenc"; sk; h] ->
    show_res hex_of_bytes (M.valget_reencode (nlist_of_string sk) (bytes_of_hex h))
  | ["valget"; sk; h] ->
    show_res (fun (fs, its) ->
        string_of_fields fs ^ " " ^ String.concat " " (List.map string_of_item its))
      (M.valget_decode (nlist_of_string sk) (bytes_of_hex h))
  | _ -> failwith ("unknown command: " ^ line)

let () =
  try
    while true do
      let line = input_line stdin in
      let out = (try handle line with Failure m -> "#driver-error " ^ m
                                     | Not_found -> "#driver-error notfound"
                                     | Invalid_argument m -> "#driver-error " ^ m) in
      print_string out; print_char '\n'
    done
  with End_of_file -> ()
