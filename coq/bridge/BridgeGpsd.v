(* Bridge lemmas (Tie B for the gpsd handshake): GnssUBlox._parse_gpsd_msg / _parse_version / _parse_devices of
   ubxlib/server.py translated from the source on this run (GpsdKernels.v, over PySem.v) = the hand model Gpsd.v
   (parse_chunk / parse_line / pick_device), for every block whose VERSION and DEVICES objects are well-formed (the
   property's proviso), every state and every requested device. *)
From Coq Require Import String Lia.
From Ubx Require Import Fields Base Checksum Frame ParserUbx CfgKeys Request Gpsd PySem GpsdP.
From UbxGen Require Import GpsdKernels.
Open Scope N_scope.

Definition ostr (o : option string) : pyval := match o with Some x => PStr x | None => PNone end.
Definition ojson (o : option json) : pyval := match o with Some j => jv j | None => PNone end.
(* the attributes of a GnssUBlox (gpsd) object that the handshake reads and writes *)
Definition obj_of_g (s : gstate) : pyval :=
  PObj [("device_name"%string, ostr (g_req s)); ("selected_device"%string, ostr (g_sel s));
        ("enabled"%string, PBool (g_enabled s)); ("release"%string, ojson (g_release s))].

Definition djv (m : list (string * json)) : list (string * pyval) := map (fun kv => (fst kv, jv (snd kv))) m.
Lemma jv_obj m : jv (JObj m) = PDict (djv m).
Proof.
  cbn [jv]. f_equal. unfold djv. induction m as [|[k x] t IH].
  - reflexivity.
  - cbn [map fst snd]; rewrite <- IH; reflexivity.
Qed.
Lemma jv_arr l : jv (JArr l) = PList (map jv l).
Proof.
  reflexivity.
Qed.
Lemma dict_get_jv m k : dict_get (djv m) k = option_map jv (jget m k).
Proof.
  induction m as [|[k' x] t IH]; [reflexivity|].
  cbn [djv map fst snd dict_get jget]. fold (djv t). rewrite IH.
  destruct (jget t k); [reflexivity|]. cbn [option_map]. destruct (String.eqb k k'); reflexivity.
Qed.

Ltac py_unfold :=
  cbv beta iota zeta delta [s_seq s_call_assign s_call s_call_assign2 s_call_return s_if s_skip s_try s_return s_assign
    s_assert s_break s_continue s_update s_update_arg s_raise res_call find_handler s_for_list].

Arguments jv : simpl never. Arguments dict_get : simpl never. Arguments jget : simpl never. Arguments pick_device : simpl never.
Arguments String.eqb : simpl nomatch. Arguments classify : simpl never.

Section Br.
Context {E : Type}.
Notation W := (world E).

Definition lift_g (r : res gstate) (w : W) : @fres E :=
  match r with Ok s => FRet (PTuple [PNone; obj_of_g s]) w | Raise e => FRaise e w end.

Lemma bridge_parse_version fuel s m (w : W) :
  gg_parse_version (E := E) fuel (obj_of_g s) (jv (JObj m)) w
  = lift_g (match jget m "release" with
            | Some r => Ok (mkG (g_req s) (g_sel s) (g_enabled s) (Some r))
            | None => Raise KeyError
            end) w.
Proof.
  unfold gg_parse_version. rewrite jv_obj. py_unfold. cbn. rewrite dict_get_jv.
  destruct (jget m "release"); reflexivity.
Qed.

(* `if self.device_name:` is the model's [requested] *)
Lemma requested_truthy s : truthy (ostr (g_req s)) = match requested s with Some _ => true | None => false end.
Proof. unfold requested. destruct (g_req s) as [[|c r]|]; reflexivity. Qed.
Lemma requested_is s r : requested s = Some r -> g_req s = Some r.
Proof. unfold requested. destruct (g_req s) as [[|c r']|]; intros H; inversion H; reflexivity. Qed.

Lemma bridge_parse_devices fuel s m (w : W) :
  match jget m "devices" with Some (JArr devs) => forallb device_ok devs = true | Some _ => False | None => True end ->
  gg_parse_devices (E := E) fuel (obj_of_g s) (jv (JObj m)) w
  = lift_g (match jget m "devices" with
            | Some (JArr devs) => pick_device s devs
            | Some _ => Raise TypeError
            | None => Raise KeyError
            end) w.
Proof.
  intros Hok. unfold gg_parse_devices. rewrite jv_obj. py_unfold. cbn. rewrite dict_get_jv.
  destruct (jget m "devices") as [[ms|devs|c| |bb|]|]; cbn; try contradiction; [|reflexivity].
  rewrite jv_arr.
  match goal with |- context [s_for_items _ ?sv ?b ?l0 w] =>
    set (Linit := l0);
    assert (Hloop : forall body, (forall l w, body l w = b l w) -> forall devs l,
              forallb device_ok devs = true -> gparse_devices__self l = obj_of_g s ->
              (forall f, gg_parse_devices_loop_stable f -> f l = f Linit) ->
              exists s' l', pick_device s devs = Ok s' /\ s_for_items (map jv devs) sv body l w = CNormal l' w
                            /\ gparse_devices__self l' = obj_of_g s');
    [| destruct (Hloop _ (fun _ _ => eq_refl) devs Linit Hok eq_refl (fun _ _ => eq_refl)) as (s' & l' & Hp & Hl & Hs); rewrite Hp, Hl; cbn;
       match goal with |- context [if ?c then _ else _] => destruct c end; cbn; rewrite Hs; reflexivity] end.
  intros body Hb. induction devs0 as [|d t IH]; intros l Hd Hself Hro.
  - exists s, l. repeat split; try reflexivity; exact Hself.
  - cbn [forallb] in Hd. apply andb_true_iff in Hd. destruct Hd as [Hd Ht].
    destruct (device_ok_inv d Hd) as (dm & ps & -> & Hpath).
    cbn [map s_for_items]. rewrite Hb. py_unfold. cbn. rewrite jv_obj. cbn. rewrite dict_get_jv, Hpath. cbn.
    change (jv (JStr ps)) with (PStr ps).
    (* locals that the loop only reads have the value they had at loop entry *)
    repeat match goal with
    | |- context [?p l] =>
        let H := fresh "Hp" in
        assert (H : p l = p Linit) by (apply Hro; unfold gg_parse_devices_loop_stable; repeat split; intros; reflexivity);
        rewrite !H; clear H
    end.
    repeat (progress (cbn; rewrite ?Hself)). rewrite ?requested_truthy.
    destruct (requested s) as [r|] eqn:Hr.
    + rewrite (pick_cons_requested s dm ps t r Hpath Hr). rewrite (requested_is s r Hr).
      repeat (progress (cbn; rewrite ?Hself, ?(requested_is s r Hr))).
      destruct (String.eqb r ps) eqn:Heq; repeat (progress (cbn; rewrite ?Hself, ?(requested_is s r Hr))).
      * eexists _, _. repeat split; repeat (progress (cbn; rewrite ?Hself, ?(requested_is s r Hr))); reflexivity.
      * apply IH; [exact Ht | cbn; exact Hself |].
        intros f0 Hs. cbn. pose proof Hs as Hs'. unfold gg_parse_devices_loop_stable in Hs'.
        repeat match type of Hs' with _ /\ _ => let A := fresh "A" in destruct Hs' as [A Hs'] end.
        repeat match goal with H : forall l v, f0 (_ l v) = f0 l |- _ => rewrite H end.
        apply Hro. exact Hs.
    + rewrite (pick_cons_none s dm ps t Hpath Hr). repeat (progress (cbn; rewrite ?Hself)).
      eexists _, _. repeat split; repeat (progress (cbn; rewrite ?Hself)); reflexivity.
Qed.

(* what msg_class == 'VERSION' / 'DEVICES' decide, in terms of the model's classification *)
Lemma class_tests (o : option json) :
  match o with
  | Some c0 => (py_eq (jv c0) (PStr "VERSION"), py_eq (jv c0) (PStr "DEVICES"))
  | None => (false, false)
  end
  = match classify o with CVersion => (true, false) | CDevices => (false, true) | COther => (false, false) end.
Proof.
  unfold classify. destruct o as [[ms|its|c| |bb|]|]; try reflexivity.
  change (jv (JStr c)) with (PStr c). cbn [py_eq].
  destruct (String.eqb c "VERSION") eqn:E1.
  - apply String.eqb_eq in E1. subst c. reflexivity.
  - destruct (String.eqb c "DEVICES"); reflexivity.
Qed.

Theorem bridge_parse_chunk fuel s c (w : W) :
  chunk_ok c = true ->
  gg_parse_gpsd_msg (E := E) fuel (obj_of_g s) (PChunk c) w = lift_g (parse_chunk s c) w.
Proof.
  intros Hok. unfold gg_parse_gpsd_msg. py_unfold. cbn.
  destruct c as [|ls]; [reflexivity|]. cbn [chunk_ok] in Hok. cbn.
  match goal with |- context [s_for_items _ ?sv ?b ?l0 w] =>
    assert (Hloop : forall body, (forall l w, body l w = b l w) -> forall ls s l,
              forallb line_ok ls = true -> gparse_gpsd_msg__self l = obj_of_g s ->
              exists s' l', parse_lines s ls = Ok s' /\ s_for_items (map PLine ls) sv body l w = CNormal l' w
                            /\ gparse_gpsd_msg__self l' = obj_of_g s');
    [| destruct (Hloop _ (fun _ _ => eq_refl) ls s l0 Hok eq_refl) as (s' & l' & Hp & Hl & Hs); rewrite Hp, Hl; cbn; rewrite Hs;
       reflexivity] end.
  intros body Hb. induction ls0 as [|ln t IH]; intros s0 l Hd Hself.
  - exists s0, l. repeat split; try reflexivity; exact Hself.
  - cbn [forallb] in Hd. apply andb_true_iff in Hd. destruct Hd as [Hd Ht].
    cbn [map s_for_items parse_lines]. rewrite Hb. py_unfold. cbn.
    destruct ln as [|v].
    { (* not JSON: json.loads raises, the handler skips the line *)
      cbn. apply IH; [exact Ht | cbn; exact Hself]. }
    destruct v as [m|its|c0| |bb|].
    2-6: cbn; apply IH; [exact Ht | cbn; exact Hself].
    (* a JSON object *)
    rewrite line_ok_obj in Hd. rewrite parse_line_obj. rewrite jv_obj. cbn. rewrite dict_get_jv.
    pose proof (class_tests (jget m "class")) as Hc.
    destruct (jget m "class") as [c0|] eqn:Ecl; cbn.
    + rewrite ?dict_get_jv, ?Ecl. cbn.
      destruct (classify (Some c0)) eqn:Ecf; injection Hc as H1 H2;
        repeat (progress (cbn; rewrite ?H1, ?H2, ?Hself)).
      * (* VERSION *)
        rewrite <- ?jv_obj. rewrite bridge_parse_version.
        destruct (jget m "release") as [r|]; [|discriminate Hd].
        repeat (progress (cbn; rewrite ?H1, ?H2)).
        apply IH; [exact Ht | cbn; reflexivity].
      * (* DEVICES *)
        rewrite <- ?jv_obj.
        destruct (jget m "devices") as [[ms|devs|c1| |bb|]|] eqn:Ed; try discriminate Hd.
        rewrite (bridge_parse_devices fuel s0 m w) by (rewrite Ed; exact Hd). rewrite Ed.
        destruct (pick_no_raise devs s0 Hd) as [s1 Hs1]. rewrite Hs1.
        repeat (progress (cbn; rewrite ?H1, ?H2)).
        apply IH; [exact Ht | cbn; reflexivity].
      * apply IH; [exact Ht | cbn; exact Hself].
    + unfold classify. apply IH; [exact Ht | cbn; exact Hself].
Qed.
End Br.

Print Assumptions bridge_parse_version.
Print Assumptions bridge_parse_devices.
Print Assumptions bridge_parse_chunk.
