From Coq Require Import Lia ZifyBool ZifyN ZifyNat.
From Ubx Require Import Fields Base CfgKeys.
From UbxGen Require Import Kernels.
(* Bridge lemmas (Tie B) for the configuration-key helpers: the Gallina kernels regenerated from the
   Python source on every run (UbxGen.Kernels, names gk_...) agree with the hand model (Ubx.CfgKeys).
   The proofs go through arithmetic normal forms (masks -> mod, shifts -> div/mul, disjoint lor -> +)
   so that harmless rewrites of the Python source keep them compiling. *)
#[local] Ltac Zify.zify_post_hook ::= Z.to_euclidean_division_equations.
Local Open Scope Z_scope.

(* ---- Z.of_N through the bit operations (not in the 8.16 stdlib) ------------------------ *)
Lemma of_N_lor : forall a b : N, Z.of_N (N.lor a b) = Z.lor (Z.of_N a) (Z.of_N b).
Proof. intros [|a] [|b]; reflexivity. Qed.
Lemma of_N_land : forall a b : N, Z.of_N (N.land a b) = Z.land (Z.of_N a) (Z.of_N b).
Proof. intros [|a] [|b]; reflexivity. Qed.
Lemma of_N_shiftl : forall a n : N, Z.of_N (N.shiftl a n) = Z.shiftl (Z.of_N a) (Z.of_N n).
Proof.
  intros a n. rewrite N.shiftl_mul_pow2, Z.shiftl_mul_pow2 by apply N2Z.is_nonneg.
  rewrite N2Z.inj_mul, N2Z.inj_pow. reflexivity.
Qed.
Lemma of_N_shiftr : forall a n : N, Z.of_N (N.shiftr a n) = Z.shiftr (Z.of_N a) (Z.of_N n).
Proof.
  intros a n. rewrite N.shiftr_div_pow2, Z.shiftr_div_pow2 by apply N2Z.is_nonneg.
  rewrite N2Z.inj_div, N2Z.inj_pow. reflexivity.
Qed.

(* ---- lor of values with disjoint bit ranges is + -------------------------------------- *)
Lemma lor_disjoint_add : forall k x y, 0 <= k -> x mod 2 ^ k = 0 -> 0 <= y < 2 ^ k -> Z.lor x y = x + y.
Proof.
  intros k x y Hk Hx Hy.
  assert (L : Z.land x y = 0).
  { apply Z.bits_inj'. intros n Hn. rewrite Z.land_spec, Z.bits_0.
    destruct (Z.lt_ge_cases n k) as [Hlt | Hge].
    - assert (E : x = x / 2 ^ k * 2 ^ k).
      { rewrite Z.mul_comm. apply Z.div_exact; [apply Z.pow_nonzero; [discriminate | exact Hk] | exact Hx]. }
      rewrite E, Z.mul_pow2_bits_low by exact Hlt. reflexivity.
    - rewrite <- (Z.mod_small y (2 ^ k)) by exact Hy.
      rewrite Z.mod_pow2_bits_high by (split; assumption). apply andb_false_r. }
  rewrite <- (Z.lxor_lor x y L). symmetry. apply Z.add_nocarry_lxor. exact L.
Qed.
Lemma lor_disjoint_add' : forall k x y, 0 <= k -> y mod 2 ^ k = 0 -> 0 <= x < 2 ^ k -> Z.lor x y = x + y.
Proof. intros k x y Hk Hy Hx. rewrite Z.lor_comm, Z.add_comm. apply (lor_disjoint_add k); assumption. Qed.

(* ---- normalisation tactics (all rewrites fully instantiated: nothing can loop) --------- *)
(* Z.land a m, m a closed constant of the form 2^k - 1   ~>   a mod 2^k *)
Ltac mask_to_mod :=
  repeat match goal with
  | |- context[Z.land ?a ?m] =>
      let m' := eval vm_compute in m in
      let k := eval vm_compute in (Z.log2 (m' + 1)) in
      let o := eval vm_compute in (Z.ones k) in
      constr_eq o m';
      change (Z.land a m) with (Z.land a (Z.ones k));
      rewrite (Z.land_ones a k) by lia
  end.
(* 2 ^ (closed k)  ~>  its value *)
Ltac pow_consts :=
  repeat match goal with
  | |- context[2 ^ ?k] =>
      let v := eval vm_compute in (2 ^ k) in
      lazymatch v with Zpos _ => idtac end;
      change (2 ^ k) with v
  end.
Ltac push_ofN :=
  repeat match goal with
  | |- context[Z.of_N (N.lor ?a ?b)] => rewrite (of_N_lor a b)
  | |- context[Z.of_N (N.land ?a ?b)] => rewrite (of_N_land a b)
  | |- context[Z.of_N (N.shiftl ?a ?b)] => rewrite (of_N_shiftl a b)
  | |- context[Z.of_N (N.shiftr ?a ?b)] => rewrite (of_N_shiftr a b)
  | |- context[Z.of_N (Z.to_N ?a)] => rewrite (Z2N.id a) by lia
  end;
  cbn [Z.of_N].
Ltac shifts_to_arith :=
  repeat match goal with
  | |- context[Z.shiftr ?a ?n] => rewrite (Z.shiftr_div_pow2 a n) by lia
  | |- context[Z.shiftl ?a ?n] => rewrite (Z.shiftl_mul_pow2 a n) by lia
  end.
Ltac lor_step x y :=
  first [ rewrite (lor_disjoint_add 12 x y) by lia | rewrite (lor_disjoint_add 16 x y) by lia
        | rewrite (lor_disjoint_add 24 x y) by lia | rewrite (lor_disjoint_add 28 x y) by lia
        | rewrite (lor_disjoint_add' 12 x y) by lia | rewrite (lor_disjoint_add' 16 x y) by lia
        | rewrite (lor_disjoint_add' 24 x y) by lia | rewrite (lor_disjoint_add' 28 x y) by lia ].
Ltac lor_to_add :=
  repeat match goal with
  | |- context[Z.lor ?x ?y] =>
      lazymatch x with context[Z.lor _ _] => fail | _ => idtac end;
      lazymatch y with context[Z.lor _ _] => fail | _ => idtac end;
      lor_step x y
  end.
Ltac arith_norm :=
  mask_to_mod; pow_consts; push_ofN; mask_to_mod; shifts_to_arith; pow_consts; lor_to_add.

(* closed table lookups / model table functions ~> their values *)
Ltac eval_lookups :=
  repeat match goal with
  | |- context[gk_assoc ?t ?k] =>
      let v := eval vm_compute in (gk_assoc t k) in
      lazymatch v with Some _ => idtac | None => idtac end;
      change (gk_assoc t k) with v
  | |- context[size_from_bits ?k] =>
      let v := eval vm_compute in (size_from_bits k) in
      lazymatch v with Some _ => idtac | None => idtac end;
      change (size_from_bits k) with v
  | |- context[bytes_from_bits ?k] =>
      let v := eval vm_compute in (bytes_from_bits k) in
      lazymatch v with Some _ => idtac | None => idtac end;
      change (bytes_from_bits k) with v
  end;
  cbv beta iota.
(* the key is none of the model's keys: every comparison in either table is false *)
Ltac no_key :=
  cbn [gk_assoc];
  repeat match goal with
  | |- context[Z.eqb ?a ?b] => destruct (Z.eqb_spec a b); [exfalso; lia | ]
  end.

(* ---- field extraction ------------------------------------------------------------------ *)
Theorem bridge_group_from_key : forall key : N, gk_group_from_key (Z.of_N key) = group_from_key key.
Proof. intros key. unfold gk_group_from_key, group_from_key. arith_norm. lia. Qed.

Theorem bridge_item_from_key  : forall key : N, gk_item_from_key (Z.of_N key) = item_from_key key.
Proof. intros key. unfold gk_item_from_key, item_from_key. arith_norm. lia. Qed.

Lemma bits_table : forall n : N, Z.of_N n < 8 ->
  nth_error gk_bits_from_size (N.to_nat n) = Some (bits_from_size n).
Proof.
  intros n H.
  assert (E : (n = 0 \/ n = 1 \/ n = 2 \/ n = 3 \/ n = 4 \/ n = 5 \/ n = 6 \/ n = 7)%N) by lia.
  repeat (destruct E as [E | E]; [subst n; reflexivity | ]). subst n; reflexivity.
Qed.

Theorem bridge_bits_from_key  : forall key : N, gk_bits_from_key (Z.of_N key) = Some (bits_from_key key).
Proof.
  intros key. unfold gk_bits_from_key, bits_from_key.
  set (n := N.land (N.shiftr key 28) 7).
  assert (Hn : Z.of_N n < 8) by (subst n; arith_norm; lia).
  match goal with
  | |- context[Z.to_nat ?z] =>
      assert (E : z = Z.of_N n) by (subst n; arith_norm; lia); rewrite E
  end.
  rewrite <- Z_N_nat, N2Z.id. apply bits_table. exact Hn.
Qed.

(* ---- tables ---------------------------------------------------------------------------- *)
Theorem bridge_bytes_for_size : forall bits : Z,
  gk_bytes_for_size bits = match bytes_from_bits bits with Some w => Some (Z.of_nat w) | None => None end.
Proof.
  intros bits. unfold gk_bytes_for_size.
  destruct (Z.eq_dec bits 1) as [-> | ?]; [eval_lookups; reflexivity | ].
  destruct (Z.eq_dec bits 8) as [-> | ?]; [eval_lookups; reflexivity | ].
  destruct (Z.eq_dec bits 16) as [-> | ?]; [eval_lookups; reflexivity | ].
  destruct (Z.eq_dec bits 32) as [-> | ?]; [eval_lookups; reflexivity | ].
  destruct (Z.eq_dec bits 64) as [-> | ?]; [eval_lookups; reflexivity | ].
  unfold bytes_from_bits, gk_bytes_from_bits. no_key. reflexivity.
Qed.

(* ---- header ---------------------------------------------------------------------------- *)
Ltac header_case := eval_lookups; f_equal; arith_norm; lia.

Theorem bridge_build_header : forall g i bits : Z, (0 <= g <= 255)%Z -> (0 <= i <= 4095)%Z ->
  gk_build_header g i bits = match build_header g i bits with Ok h => Some (Z.of_N h) | Raise _ => None end.
Proof.
  intros g i bits Hg Hi. unfold gk_build_header, build_header.
  destruct (Z.eq_dec bits 1) as [-> | ?]; [header_case | ].
  destruct (Z.eq_dec bits 8) as [-> | ?]; [header_case | ].
  destruct (Z.eq_dec bits 16) as [-> | ?]; [header_case | ].
  destruct (Z.eq_dec bits 32) as [-> | ?]; [header_case | ].
  destruct (Z.eq_dec bits 64) as [-> | ?]; [header_case | ].
  unfold size_from_bits, gk_size_from_bits. no_key. reflexivity.
Qed.

Print Assumptions bridge_group_from_key.
Print Assumptions bridge_item_from_key.
Print Assumptions bridge_bits_from_key.
Print Assumptions bridge_bytes_for_size.
Print Assumptions bridge_build_header.
