(* Bridge lemma (Tie B for the bit-rate scan): GnssUBlox.scan() of ubxlib/server_tty.py translated from the source on this
   run (ScanKernels.v, over the Python semantics of PySem.v) = the hand model Scan.v, for every backend, state and fuel. *)
From Coq Require Import String Lia ZifyBool ZifyN ZifyNat.
From Ubx Require Import Fields Base Checksum Frame ParserUbx ParserNmea CfgKeys Request PySem Scan.
From UbxGen Require Import ScanKernels.
Open Scope N_scope.

Lemma Zltb_N a b : (Z.of_N a <? Z.of_N b)%Z = (a <? b).
Proof. destruct (a <? b) eqn:H; lia. Qed.
Lemma Zeqb_N a b : (Z.of_N a =? Z.of_N b)%Z = (a =? b).
Proof. destruct (a =? b) eqn:H; lia. Qed.
Lemma two_le (n : N) : (2 <=? Z.of_N n - 0)%Z = (2 <=? n).
Proof. destruct (2 <=? n) eqn:H; lia. Qed.
Lemma one_lt (n : N) : (1 <? Z.of_N n - 0)%Z = (2 <=? n).
Proof. destruct (2 <=? n) eqn:H; lia. Qed.

Arguments process : simpl never. Arguments nprocess : simpl never. Arguments scan_loop : simpl never.
Arguments N.add : simpl never. Arguments Z.of_N : simpl never. Arguments Z.ltb : simpl never. Arguments Z.eqb : simpl never.
Arguments Z.add : simpl never. Arguments Z.sub : simpl never. Arguments Z.leb : simpl never.
Arguments N.ltb : simpl never. Arguments N.eqb : simpl never. Arguments N.leb : simpl never.

Ltac py_unfold :=
  cbv beta iota zeta delta [s_seq s_call_assign s_call s_call_assign2 s_call_return s_if s_skip s_try s_return s_assign
    s_assert s_break s_continue s_update s_update_arg s_raise prim_receive prim_flush py_obj_process].

Section Br.
Context {E : Type} (B : backend E).
Notation W := (world E).

Definition rx_events (l : list (option bytes * N)) : list event := map (fun ev => Rx (fst ev) (snd ev)) l.

(* the translated scan and the model agree on the result, the backend state, the clock and what was read *)
Definition scan_agrees (T0 : list event) (g : @fres E) (r : scan_result * scan_world E) : Prop :=
  let ok w' := wenv w' = sc_env (snd r) /\ wnow w' = sc_now (snd r) /\ wtrace w' = T0 ++ rx_events (sc_rx (snd r)) in
  match g, fst r with
  | FRet (PBool true) w', ScanTrue => ok w'
  | FRet PNone w', ScanNone => ok w'
  | FFuel w', ScanFuel => ok w'
  | _, _ => False
  end.

Lemma scan_loop_unfold k d (w : scan_world E) : scan_loop B (S k) d w =
      if sc_now w <? d then
        let '(data, dt, e') := receive B (sc_env w) in
        let w1 := mkScan (sc_ubx w) (sc_nmea w) e' (sc_now w + dt) (sc_rx w ++ [(data, dt)]) in
        match nonempty data with
        | None => scan_loop B k d w1
        | Some dd =>
            let u := process (sc_ubx w1) dd in
            if 2 <=? rx u then (ScanTrue, mkScan u (sc_nmea w1) (sc_env w1) (sc_now w1) (sc_rx w1))
            else
              let n := nprocess (sc_nmea w1) dd in
              let w2 := mkScan u n (sc_env w1) (sc_now w1) (sc_rx w1) in
              if 2 <=? nrx n then (ScanTrue, w2) else scan_loop B k d w2
        end
      else (ScanNone, w).
Proof. reflexivity. Qed.

Theorem bridge_scan : forall (sk : list N) fuel interval (w : W),
  scan_agrees (wtrace w ++ [Flush]) (g_scan B fuel (PInt (Z.of_N interval)) w) (scan B fuel interval (wenv w) (wnow w)).
Proof.
  intros sk fuel interval w. unfold g_scan, scan. py_unfold. cbn.
  rewrite <- N2Z.inj_add. set (d := wnow w + interval).
  match goal with |- scan_agrees _ (run_body (s_while fuel ?c ?b ?l0 ?w0)) _ =>
    assert (Hloop : forall body, (forall l w, body l w = b l w) -> forall k l (w1 : W) (sw : scan_world E) T0,
               (forall w2 : W, c l w2 = p_before w2 (PInt (Z.of_N d))) ->
               scan__parser_ubx l = PUbxParser (sc_ubx sw) -> scan__parser_nmea l = PNmeaParser (sc_nmea sw) ->
               scan__ubx_frames l = PInt (Z.of_N 0) -> scan__nmea_frames l = PInt (Z.of_N 0) ->
               wenv w1 = sc_env sw -> wnow w1 = sc_now sw -> wtrace w1 = T0 ++ rx_events (sc_rx sw) ->
               scan_agrees T0 (run_body (s_while k c body l w1)) (scan_loop B k d sw)) end.
  { intros body Hbody. induction k as [|k IH]; intros l w1 sw T0 Hc Hu Hn Hu0 Hn0 He Ht Htr.
    - cbn. unfold scan_loop. cbn. repeat split; assumption.
    - rewrite scan_loop_unfold. cbn [s_while]. rewrite Hc. unfold p_before at 1.
      rewrite Zltb_N, Ht. cbv zeta.
      destruct (sc_now sw <? d); [|cbn; repeat split; cbn; assumption].
      rewrite Hbody. py_unfold. cbn [wenv wsrv wnow wtrace wtie]. rewrite He.
      destruct (receive B (sc_env sw)) as [[data dt] e']. cbn.
      destruct data as [[|b0 t]|]; cbn.
      + apply IH; cbn; try assumption; try (intros; cbn; apply Hc); try reflexivity; try (rewrite Ht; reflexivity).
        rewrite Htr. unfold rx_events. rewrite map_app, app_assoc. reflexivity.
      + rewrite Hu. cbn. rewrite Hu0. cbn. rewrite ?two_le, ?one_lt.
        destruct (2 <=? rx (process (sc_ubx sw) (b0 :: t))).
        * cbn. repeat split; cbn; try (rewrite Ht; reflexivity).
          rewrite Htr. unfold rx_events. rewrite map_app, app_assoc. reflexivity.
        * cbn. rewrite Hn. cbn. rewrite Hn0. cbn. rewrite ?two_le, ?one_lt.
          destruct (2 <=? nrx (nprocess (sc_nmea sw) (b0 :: t))).
          -- cbn. repeat split; cbn; try (rewrite Ht; reflexivity).
             rewrite Htr. unfold rx_events. rewrite map_app, app_assoc. reflexivity.
          -- apply IH; cbn; try assumption; try (intros; cbn; apply Hc); try reflexivity; try (rewrite Ht; reflexivity).
             rewrite Htr. unfold rx_events. rewrite map_app, app_assoc. reflexivity.
      + apply IH; cbn; try assumption; try (intros; cbn; apply Hc); try reflexivity; try (rewrite Ht; reflexivity).
        rewrite Htr. unfold rx_events. rewrite map_app, app_assoc. reflexivity. }
  apply Hloop; try reflexivity.
  cbn. unfold rx_events. cbn. rewrite app_nil_r. reflexivity.
Qed.
End Br.

Print Assumptions bridge_scan.
