(* Bridge lemmas (Tie B for the request loop): ubxlib/server_base.py translated from the source on this run
   (ReqKernels.v, over the Python semantics of PySem.v) = the hand model Request.v, for every backend, server
   state and fuel for which the model does not run out of fuel. *)
From Coq Require Import String Lia ZifyBool ZifyN ZifyNat.
From Ubx Require Import Fields Base Checksum Frame ParserUbx CfgKeys Request PySem CfgKeysP.
From UbxGen Require Import ReqKernels.
Open Scope N_scope.

(* ---- which exceptions decoding an answer can raise: all are caught by _wait()'s handlers -------------- *)
Definition decode_exn (e : exn) : Prop := e = ValueError \/ e = StructError \/ e = AssertionError \/ e = KeyError.

Lemma unpack_int_exn s w bs e : unpack_int s w bs = Raise e -> e = StructError.
Proof. unfold unpack_int. destruct (negb _); [congruence|]. destruct (_ && _); discriminate. Qed.

Lemma unpack_item_exn t data e : unpack_item t data = Raise e -> e = ValueError \/ e = StructError.
Proof.
  destruct t as [w|w|w|n|n]; cbn [unpack_item].
  1-3: destruct (unpack_int _ _ _) eqn:H; cbn [bind]; [discriminate|]; intros X; inversion X; subst;
       right; eapply unpack_int_exn; eauto.
  - discriminate.
  - destruct (Nat.ltb _ _); [intros X; inversion X; auto|]. cbv zeta. destruct (utf8_valid _); [discriminate|].
    intros X; inversion X; auto.
Qed.

Lemma unpack_fields_exn : forall fs data e, unpack_fields fs data = Raise e -> e = ValueError \/ e = StructError.
Proof.
  induction fs as [|[[n t] v] rest IH]; intros data e; cbn [unpack_fields]; [discriminate|].
  destruct (unpack_item t data) as [ov|e'] eqn:H1; cbn [bind].
  - destruct (unpack_fields rest _) as [[r tl]|e'] eqn:H2; cbn [bind]; [discriminate|].
    intros X; inversion X; subst. eapply IH; eauto.
  - intros X; inversion X; subst. eapply unpack_item_exn; eauto.
Qed.

Lemma decode_raises k data e : decode k data = Raise e -> decode_exn e.
Proof.
  unfold decode_exn. destruct k as [l|hdr cnt maxc blk|]; cbn [decode].
  - destruct (unpack_fields _ _) as [[fs tl]|e'] eqn:H; cbn [bind]; [discriminate|].
    intros X; inversion X; subst. apply unpack_fields_exn in H. tauto.
  - destruct (unpack_fields _ _) as [[h tl]|e'] eqn:H; cbn [bind].
    + destruct (getf h cnt) as [[c|s]|]; try (intros X; inversion X; tauto).
      assert (Hgo : forall X : res fields, (let all := h ++ fresh_fields (blocks blk (Z.to_nat c)) in
                 let* (fs, _) := unpack_fields all data in Ok fs) = X -> X = Raise e -> decode_exn e).
      { cbv zeta. intros X0 <-. destruct (unpack_fields (h ++ _) _) as [[fs tl']|e'] eqn:H2; cbn [bind].
        - intros X; discriminate X.
        - intros X; inversion X; subst. apply unpack_fields_exn in H2. unfold decode_exn; tauto. }
      destruct maxc as [m|]; [destruct (Z.of_N m <? c)%Z; [intros X; inversion X; tauto|]|];
        intros X; apply (Hgo _ eq_refl) in X; exact X.
    + intros X; inversion X; subst. apply unpack_fields_exn in H. tauto.
  - destruct (unpack_fields _ _) as [[fs tl]|e'] eqn:H; cbn [bind]; [discriminate|].
    intros X; inversion X; subst. apply unpack_fields_exn in H. tauto.
Qed.

Lemma valget_items_exn sk : forall fuel work e, valget_items sk fuel work = Raise e -> e = ValueError.
Proof.
  induction fuel as [|k IH]; intros work e; cbn [valget_items]; [discriminate|].
  destruct (Nat.ltb _ 4); [discriminate|].
  destruct (unpack_item_cfg sk work) as [[it n]|e'] eqn:H1; cbn [bind].
  - destruct (valget_items sk k _) as [r|e'] eqn:H2; cbn [bind]; [discriminate|].
    intros X; inversion X; subst. eapply IH; eauto.
  - intros X; inversion X; subst. eapply unpack_only_value_error; eauto.
Qed.

Lemma build_raises sk rk data e : build_with_data sk rk data = Raise e -> decode_exn e.
Proof.
  destruct rk as [k|]; cbn [build_with_data].
  - destruct (decode k data) eqn:H; cbn [bind]; [discriminate|]. intros X; inversion X; subst. eapply decode_raises; eauto.
  - unfold valget_decode.
    destruct (unpack_fields _ _) as [[h work]|e'] eqn:H; cbn [bind].
    + destruct (valget_items _ _ _) as [its|e'] eqn:H2; cbn [bind]; [discriminate|].
      intros X; inversion X; subst. apply valget_items_exn in H2. unfold decode_exn; tauto.
    + intros X; inversion X; subst. apply unpack_fields_exn in H. unfold decode_exn; tauto.
Qed.

Lemma decode_exn_handled e : decode_exn e ->
  exn_caught e [KeyError] = true \/ exn_caught e [ValueError; StructError; AssertionError] = true.
Proof. intros [ -> | [ -> | [ -> | -> ] ] ]; vm_compute; auto. Qed.

(* ---- arithmetic between the Z of Python ints and the N of the model ----------------------------------- *)
Lemma Zltb_N a b : (Z.of_N a <? Z.of_N b)%Z = (a <? b).
Proof. destruct (a <? b) eqn:H; lia. Qed.
Lemma Zeqb_N a b : (Z.of_N a =? Z.of_N b)%Z = (a =? b).
Proof. destruct (a =? b) eqn:H; lia. Qed.
Lemma cidN_cidZ c : cidN (cidZ c) = c.
Proof. destruct c as [a b]. unfold cidN, cidZ. cbn [fst snd]. rewrite !N2Z.id. reflexivity. Qed.
Lemma py_eq_cid (a b : cid) : py_eq (PCid (cidZ a)) (PCid (cidZ b)) = cid_eqb a b.
Proof. destruct a, b. unfold py_eq, cidZ, cid_eqb. cbn [fst snd]. rewrite !Zeqb_N. reflexivity. Qed.

Lemma crc_Z c i : ((fst (cidZ (c, i)) =? 0)%Z && (snd (cidZ (c, i)) =? 2)%Z)%bool = cid_eqb (c, i) CID_CRC_ERROR.
Proof.
  unfold cidZ, cid_eqb, CID_CRC_ERROR. cbn [fst snd]. change 0%Z with (Z.of_N 0). change 2%Z with (Z.of_N 2).
  rewrite !Zeqb_N. reflexivity.
Qed.

Arguments wait : simpl never. Arguments poll_phase : simpl never. Arguments poll_attempts : simpl never.
Arguments set_attempts : simpl never.
Arguments process : simpl never. Arguments packet : simpl never. Arguments restart : simpl never.
Arguments empty_queue : simpl never. Arguments set_filters : simpl never. Arguments set_filter : simpl never.
Arguments build_with_data : simpl never. Arguments reg_lookup : simpl never. Arguments pack_body : simpl never.
Arguments to_bytes : simpl never. Arguments new_frame : simpl never. Arguments dec_getf : simpl never.
Arguments N.add : simpl never. Arguments Z.of_N : simpl never. Arguments Z.ltb : simpl never. Arguments Z.eqb : simpl never.
Arguments Z.add : simpl never. Arguments N.ltb : simpl never. Arguments N.eqb : simpl never. Arguments Z.of_nat : simpl never.
Arguments Z.to_nat : simpl never. Arguments cidZ : simpl never. Arguments cidN : simpl never.
Arguments cid_eqb : simpl never. Arguments String.eqb : simpl nomatch.

Ltac py_unfold :=
  cbv beta iota zeta delta [s_seq s_call_assign s_call s_call_assign2 s_call_return s_if s_skip s_try s_return s_assign
    s_assert s_break s_continue s_update s_raise prim_receive prim_process prim_packet prim_build prim_flush prim_recover
    prim_transmit prim_empty_queue prim_restart prim_set_filters prim_set_filter prim_register prim_cls_response
    prim_to_bytes pkt_val].

Section Br.
Context {E : Type} (B : backend E) (sk : list N).
Notation W := (world E).

Definition lift_wait (r : option (option rframe) * W) : @fres E :=
  match r with
  | (None, w) => FFuel w
  | (Some None, w) => FRet PNone w
  | (Some (Some f), w) => FRet (PFrame f) w
  end.

Lemma wait_unfold k d (w : W) : wait B sk (S k) d w =
      let w := mkWorld (wsrv w) (wenv w) (wnow w) (wtrace w) (wtie w || (wnow w =? d)) in
      if wnow w <? d then
        let '(data, dt, e') := receive B (wenv w) in
        let w := log w e' (wnow w + dt) (Rx data dt) in
        let p := match nonempty data with
                 | Some d => process (sparser (wsrv w)) d
                 | None => sparser (wsrv w)
                 end in
        let (x, p') := packet p in
        let w := with_parser w p' in
        match x with
        | Some (Pkt c i payload) =>
            if is_crc_marker (Pkt c i payload) then wait B sk k d w
            else match reg_lookup (sreg (wsrv w)) (c, i) with
                 | None => wait B sk k d w
                 | Some (name, rk) =>
                     match build_with_data sk rk payload with
                     | Ok dd => (Some (Some (mkRFrame name (c, i) payload dd)), w)
                     | Raise _ => wait B sk k d w
                     end
                 end
        | Some CrcErr => wait B sk k d w
        | None => wait B sk k d w
        end
      else (Some None, w).
Proof. reflexivity. Qed.

Ltac wait_loop_tac d :=
  let body := fresh "body" in let Hbody := fresh "Hbody" in let k := fresh "k" in let IH := fresh "IH" in
  let l := fresh "l" in let w' := fresh "w'" in let Hl := fresh "Hl" in
  intros body Hbody;
  induction k as [|k IH]; intros l w' Hl;
  [ reflexivity
  | rewrite wait_unfold; cbn [s_while]; rewrite Hl; unfold p_before at 1;
    rewrite Zltb_N, Zeqb_N; cbv zeta; cbn [wnow wenv wsrv wtrace wtie];
    destruct (wnow w' <? d); [|reflexivity];
    rewrite Hbody; py_unfold; cbn [wenv wsrv wnow wtrace wtie sparser sreg sretries sdelay];
    let data := fresh "data" in let dt := fresh "dt" in let e' := fresh "e'" in
    destruct (receive B (wenv w')) as [[data dt] e']; cbn;
    destruct data as [[|? ?]|]; cbn;
    match goal with |- context [packet ?p] => let x := fresh "x" in let p' := fresh "p'" in destruct (packet p) as [x p']; cbn;
      let c := fresh "c" in let i := fresh "i" in let payload := fresh "payload" in
      destruct x as [[c i payload|]|]; cbn;
      try (apply IH; intros; cbn; apply Hl);
      rewrite ?crc_Z, ?cidN_cidZ;
      (destruct (cid_eqb (c, i) CID_CRC_ERROR); cbn; [apply IH; intros; cbn; apply Hl|]);
      repeat (progress (cbn; rewrite ?crc_Z, ?cidN_cidZ));
      let name := fresh "name" in let rk := fresh "rk" in
      (destruct (reg_lookup _ _) as [[name rk]|]; cbn; [|apply IH; intros; cbn; apply Hl]);
      let Hb := fresh "Hb" in
      (destruct (build_with_data sk rk payload) eqn:Hb; cbn; [reflexivity|]);
      destruct (build_raises _ _ _ _ Hb) as [ -> | [ -> | [ -> | -> ] ] ]; cbn; apply IH; intros; cbn; apply Hl
    end ].

(* _wait(time_end) and _wait() *)
Theorem bridge_wait : forall fuel (w : W),
  (forall d, g_wait B sk fuel (PInt (Z.of_N d)) w = lift_wait (wait B sk fuel d w))
  /\ g_wait B sk fuel PNone w = lift_wait (wait B sk fuel (wnow w + sdelay (wsrv w)) w).
Proof.
  intros fuel w. split; [intros d|]; unfold g_wait; cbn.
  - match goal with |- run_body (s_while fuel ?c ?b ?l0 w) = _ =>
      assert (Hloop : forall body, (forall l w, body l w = b l w) -> forall k l w,
                 (forall w0 : W, c l w0 = p_before w0 (PInt (Z.of_N d))) ->
                 run_body (s_while k c body l w) = lift_wait (wait B sk k d w)) by wait_loop_tac d;
      apply Hloop; [reflexivity | intros; reflexivity] end.
  - set (d := wnow w + sdelay (wsrv w)).
    match goal with |- run_body (s_while fuel ?c ?b ?l0 w) = _ =>
      assert (Hloop : forall body, (forall l w, body l w = b l w) -> forall k l w,
                 (forall w0 : W, c l w0 = p_before w0 (PInt (Z.of_N d))) ->
                 run_body (s_while k c body l w) = lift_wait (wait B sk k d w)) by wait_loop_tac d;
      apply Hloop; [reflexivity|] end.
    intros w0. cbn. unfold d. rewrite N2Z.inj_add. reflexivity.
Qed.

Ltac zn :=
  unfold cidZ; cbn [fst snd];
  repeat match goal with
  | |- context [Z.eqb _ (Zpos ?p)] => change (Zpos p) with (Z.of_N (Npos p))
  | |- context [Z.eqb _ Z0] => change Z0 with (Z.of_N N0)
  end;
  rewrite ?Zeqb_N.

Definition acknak_val (a : acknak) : pyval :=
  match a with IsAck => PStr "ACK" | IsNak => PStr "NAK" | IsOther => PNone end.

(* the three classifiers: case analysis on the atomic comparisons (class, id, the named fields), whatever order and nesting
   the code tests them in; impossible combinations are closed by arithmetic *)
Ltac check_step :=
  first [ progress zn | progress cbn
        | match goal with |- context [dec_getf ?d ?n] => destruct (dec_getf d n) as [[?z|?s]|] end
        | match goal with |- context [(?a =? ?b)%N] => let H := fresh "Hc" in destruct (a =? b)%N eqn:H end
        | match goal with |- context [(?a =? ?b)%Z] => let H := fresh "Hc" in destruct (a =? b)%Z eqn:H end ].
Ltac check_tac :=
  py_unfold; unfold cid_eqb, CID_ACK, CID_NAK, CID_MGA_ACK; cbn [fst snd]; repeat check_step; first [reflexivity | exfalso; lia].

Lemma bridge_check_ack_nak fuel rq dd f (w : W) :
  g_check_ack_nak (E := E) fuel (PReq rq dd) (PFrame f) w = FRet (acknak_val (check_ack_nak (rq_cid rq) f)) w.
Proof. unfold g_check_ack_nak, check_ack_nak. check_tac. Qed.

Lemma bridge_check_mga fuel rq dd f (w : W) :
  g_check_mga (E := E) fuel (PReq rq dd) (PFrame f) w = FRet (if check_mga f then PBool true else PNone) w.
Proof. unfold g_check_mga, check_mga. check_tac. Qed.

Lemma bridge_check_poll fuel rq dd f (w : W) :
  g_check_poll (E := E) fuel (PReq rq dd) (PFrame f) w = FRet (if cid_eqb (rf_cid f) (rq_cid rq) then PBool true else PNone) w.
Proof. unfold g_check_poll. check_tac. Qed.

Lemma bridge_send fuel rq payload (w : W) :
  g_send B fuel (PReq rq (Some payload)) w =
  FRet (PBool (fst (send B w (rq_cid rq) payload))) (snd (send B w (rq_cid rq) payload)).
Proof.
  unfold g_send, send. py_unfold. cbn.
  destruct (transmit B (wenv w) _) as [ok e']. reflexivity.
Qed.

Lemma bridge_register fuel c k (w : W) :
  g_register_response (E := E) fuel (PCls c k) w = FRet PNone (with_reg w (reg_register (sreg (wsrv w)) c k)).
Proof. reflexivity. Qed.

Lemma with_parser_twice (w : W) p q : with_parser (with_parser w p) q = with_parser w q.
Proof. reflexivity. Qed.

Lemma set_attempts_unfold fuel n mga req payload (w : W) :
  set_attempts B sk fuel (S n) mga req payload w =
      let w := do_flush B w in
      let (ok, w) := send B w req payload in
      if ok then
        let w := purge w in
        match wait B sk fuel (wnow w + sdelay (wsrv w)) w with
        | (None, w') => (OutOfFuel, w')
        | (Some None, w') => set_attempts B sk fuel n mga req payload (do_recover B w')
        | (Some (Some f), w') =>
            let accept := if mga then check_mga f
                          else match check_ack_nak req f with IsAck | IsNak => true | IsOther => false end in
            if accept then (Return (Some f), w')
            else set_attempts B sk fuel n mga req payload w'
        end
      else set_attempts B sk fuel n mga req payload w.
Proof. reflexivity. Qed.

Definition lift_out (r : outcome * W) : @fres E :=
  match r with
  | (Return None, w) => FRet PNone w
  | (Return (Some f), w) => FRet (PFrame f) w
  | (Raised e, w) => FRaise e w
  | (OutOfFuel, w) => FFuel w
  end.

Ltac cid_consts :=
  repeat match goal with
  | |- context [cidN (?a, ?b)] =>
      lazymatch a with Z.of_N _ => fail | fst _ => fail | _ => idtac end;
      let v := eval vm_compute in (cidN (a, b)) in change (cidN (a, b)) with v
  end.

Theorem bridge_set : forall fuel rq (w : W),
  g_set B sk fuel (PReq rq None) w = lift_out (set B sk fuel rq w).
Proof.
  intros fuel rq w. unfold g_set, set. py_unfold. cbn. cid_consts.
  change [(5, 1); (5, 0)] with [CID_ACK; CID_NAK].
  set (w1 := with_parser w _).
  destruct (pack_body (rq_body rq)) as [payload|e]; cbn; [|reflexivity].
  change (sretries (wsrv w)) with (sretries (wsrv w1)).
  match goal with |- context [Z.to_nat ?z] => replace (Z.to_nat z) with (S (sretries (wsrv w1))) by lia end.
  match goal with |- run_body (s_for_range _ ?b ?l0 w1) = _ =>
    assert (Hloop : forall body, (forall l w, body l w = b l w) -> forall n l w, set__frame_set l = PReq rq (Some payload) ->
               run_body (s_for_range n body l w) = lift_out (set_attempts B sk fuel n false (rq_cid rq) payload w));
    [| apply Hloop; reflexivity] end.
  intros body Hbody. induction n as [|n IH]; intros l w' Hl; [reflexivity|].
  cbn [s_for_range]. rewrite set_attempts_unfold. rewrite Hbody. cbv beta zeta. rewrite Hl, bridge_send.
  destruct (send B (do_flush B w') (rq_cid rq) payload) as [ok w2]. cbn.
  destruct ok; cbn; [|apply IH; cbn; exact Hl].
  rewrite (proj2 (bridge_wait fuel _)). unfold purge. cbn. rewrite ?with_parser_twice.
  match goal with |- context [wait B sk fuel ?d ?ww] => destruct (wait B sk fuel d ww) as [[[f|]|] w3] end; cbn.
  - rewrite Hl, bridge_check_ack_nak. cbn.
    destruct (check_ack_nak (rq_cid rq) f); cbn; try reflexivity. apply IH; cbn; exact Hl.
  - apply IH; cbn; exact Hl.
  - reflexivity.
Qed.

(* set_mga() asserts that the request is of class 0x13; the model's set_mga is only ever used for such requests *)
Theorem bridge_set_mga : forall fuel rq (w : W), fst (rq_cid rq) = 19 ->
  g_set_mga B sk fuel (PReq rq None) w = lift_out (set_mga B sk fuel rq w).
Proof.
  intros fuel rq w Hcls. unfold g_set_mga, set_mga. py_unfold. cbn. cid_consts. zn. rewrite Hcls, N.eqb_refl. cbn.
  change (19, 96) with CID_MGA_ACK.
  set (w1 := with_parser w _).
  destruct (pack_body (rq_body rq)) as [payload|e]; cbn; [|reflexivity].
  change (sretries (wsrv w)) with (sretries (wsrv w1)).
  match goal with |- context [Z.to_nat ?z] => replace (Z.to_nat z) with (S (sretries (wsrv w1))) by lia end.
  match goal with |- run_body (s_for_range _ ?b ?l0 w1) = _ =>
    assert (Hloop : forall body, (forall l w, body l w = b l w) -> forall n l w, set_mga__frame_set_mga l = PReq rq (Some payload) ->
               run_body (s_for_range n body l w) = lift_out (set_attempts B sk fuel n true (rq_cid rq) payload w));
    [| apply Hloop; reflexivity] end.
  intros body Hbody. induction n as [|n IH]; intros l w' Hl; [reflexivity|].
  cbn [s_for_range]. rewrite set_attempts_unfold. rewrite Hbody. cbv beta zeta. rewrite Hl, bridge_send.
  destruct (send B (do_flush B w') (rq_cid rq) payload) as [ok w2]. cbn.
  destruct ok; cbn; [|apply IH; cbn; exact Hl].
  rewrite (proj2 (bridge_wait fuel _)). unfold purge. cbn. rewrite ?with_parser_twice.
  match goal with |- context [wait B sk fuel ?d ?ww] => destruct (wait B sk fuel d ww) as [[[f|]|] w3] end; cbn.
  - rewrite Hl, bridge_check_mga. cbn.
    destruct (check_mga f); cbn; try reflexivity. apply IH; cbn; exact Hl.
  - apply IH; cbn; exact Hl.
  - reflexivity.
Qed.

Theorem bridge_fire_and_forget : forall fuel rq (w : W),
  g_fire_and_forget B fuel (PReq rq None) w = lift_out (fire_and_forget B rq w).
Proof.
  intros fuel rq w. unfold g_fire_and_forget, fire_and_forget. py_unfold. cbn.
  destruct (pack_body (rq_body rq)) as [payload|e]; cbn; [|reflexivity].
  rewrite bridge_send. destruct (send B w (rq_cid rq) payload) as [ok w2]. reflexivity.
Qed.

(* ---- poll ------------------------------------------------------------------------------------------- *)
Lemma wait_mono : forall k k' d (w : W) r w', (k <= k')%nat ->
  wait B sk k d w = (Some r, w') -> wait B sk k' d w = (Some r, w').
Proof.
  induction k as [|k IH]; intros k' d w r w' Hle H; [discriminate H|].
  destruct k' as [|k']; [lia|]. rewrite wait_unfold in *. cbv zeta in *.
  destruct (wnow _ <? d); [|exact H].
  destruct (receive B _) as [[data dt] e'].
  destruct (packet _) as [x p'].
  destruct x as [[c i payload|]|]; try (apply IH; [lia|exact H]).
  destruct (is_crc_marker _); [apply IH; [lia|exact H]|].
  destruct (reg_lookup _ _) as [[name rk]|]; [|apply IH; [lia|exact H]].
  destruct (build_with_data _ _ _); [exact H|apply IH; [lia|exact H]].
Qed.

Lemma poll_phase_unfold k req ack resp d (w : W) :
  poll_phase B sk (S k) req ack resp d w =
      match wait B sk (S k) d w with
      | (None, w') => (AFuel, w')
      | (Some None, w') => (ATimeout, w')
      | (Some (Some f), w') =>
          if negb ack then
            if cid_eqb (rf_cid f) req then
              if fst req =? CLASS_CFG
              then poll_phase B sk k req true (Some f) (wnow w' + sdelay (wsrv w')) w'
              else (AOk f, w')
            else poll_phase B sk k req false resp d w'
          else
            match check_ack_nak req f with
            | IsAck => match resp with Some r => (AOk r, w') | None => (ATimeout, w') end
            | _ => poll_phase B sk k req true resp d w'
            end
      end.
Proof. reflexivity. Qed.

Lemma poll_attempts_unfold fuel n req payload (w : W) :
  poll_attempts B sk fuel (S n) req payload w =
      let w := do_flush B w in
      let (ok, w) := send B w req payload in
      if ok then
        let w := purge w in
        match poll_phase B sk fuel req false None (wnow w + sdelay (wsrv w)) w with
        | (AOk f, w') => (Return (Some f), w')
        | (ATimeout, w') => poll_attempts B sk fuel n req payload (do_recover B w')
        | (AFuel, w') => (OutOfFuel, w')
        end
      else poll_attempts B sk fuel n req payload w.
Proof. reflexivity. Qed.

Lemma cls_test (c : cid) : (fst (cidZ c) =? 6)%Z = (fst c =? 6).
Proof. unfold cidZ. cbn [fst]. change 6%Z with (Z.of_N 6). apply Zeqb_N. Qed.

Definition resp_val (r : option rframe) : pyval := match r with Some f => PFrame f | None => PNone end.
(* the four tags of poll()'s state local, as the current source spells them (by position in g_poll_state_strings) *)
Notation swr := ltac:(let v := eval vm_compute in (nth 0 g_poll_state_strings ""%string) in exact v) (only parsing).
Notation swa := ltac:(let v := eval vm_compute in (nth 1 g_poll_state_strings ""%string) in exact v) (only parsing).
Notation sok := ltac:(let v := eval vm_compute in (nth 2 g_poll_state_strings ""%string) in exact v) (only parsing).
Notation sto := ltac:(let v := eval vm_compute in (nth 3 g_poll_state_strings ""%string) in exact v) (only parsing).
Definition state_val (ack : bool) : pyval := PStr (if ack then swa else swr).

(* Every local that the retry loop of poll() only reads has, throughout the loop, the value it had before the loop:
   [f l = f Linit] for every observation f that none of the loop-assigned locals (g_poll_loop_stable, emitted by the
   translator from the source) can change. *)
Ltac stable_tac Hro :=
  let f0 := fresh "f0" in let Hs := fresh "Hs" in intros f0 Hs; cbn;
  let Hs' := fresh "Hs'" in pose proof Hs as Hs'; unfold g_poll_loop_stable in Hs';
  repeat match type of Hs' with _ /\ _ => let A := fresh "A" in destruct Hs' as [A Hs'] end;
  repeat match goal with H : forall l v, f0 (_ l v) = f0 l |- _ => rewrite H end;
  apply Hro; exact Hs.
Ltac ro l Hro Linit :=
  repeat match goal with
  | |- context [?p l] =>
      let H := fresh "Hp" in
      assert (H : p l = p Linit) by (apply Hro; unfold g_poll_loop_stable; repeat split; intros; reflexivity);
      rewrite !H; clear H
  end; cbn.

Theorem bridge_poll : forall fuel fuel' rq (w : W), (fuel < fuel')%nat ->
  fst (poll B sk fuel rq w) <> OutOfFuel ->
  g_poll B sk fuel' (PReq rq None) w = lift_out (poll B sk fuel rq w).
Proof.
  intros fuel fuel' rq w Hf. unfold g_poll, poll. py_unfold. cbn. rewrite !cls_test. unfold CLASS_CFG.
  destruct (fst (rq_cid rq) =? 6) eqn:Hcfg; cbn; rewrite ?cidN_cidZ; cid_consts.
  all: match goal with |- context [set_filters ?p ?f] => set (w1 := with_parser (with_reg w _) (set_filters p f)) end.
  all: destruct (pack_body (rq_body rq)) as [payload|e]; cbn; [|reflexivity].
  all: change (sretries (wsrv w)) with (sretries (wsrv w1)).
  all: match goal with |- context [Z.to_nat ?z] => replace (Z.to_nat z) with (S (sretries (wsrv w1))) by lia end.
  all: intros Hnf.
  all: match goal with |- run_body (s_for_range _ ?b ?Li _) = _ => set (Linit := Li) end.
  all: assert (Hfp0 : poll__frame_poll Linit = PReq rq (Some payload)) by reflexivity.
  all: match goal with |- context [s_while _ ?c ?wb] =>
    assert (Hwhile : forall wbody, (forall l w, wbody l w = wb l w) ->
      forall k j l w ack resp d, (k < j)%nat -> (k < fuel')%nat ->
        (forall f, g_poll_loop_stable f -> f l = f Linit) -> poll__state l = state_val ack ->
        poll__response l = resp_val resp -> poll__time_end l = PInt (Z.of_N d) -> (ack = true -> resp <> None) ->
        match poll_phase B sk k (rq_cid rq) ack resp d w with
        | (AFuel, _) => True
        | (AOk f, w') => exists l', s_while j c wbody l w = CNormal l' w' /\ poll__state l' = PStr sok
                                    /\ poll__response l' = PFrame f /\ (forall f, g_poll_loop_stable f -> f l' = f Linit)
        | (ATimeout, w') => exists l', s_while j c wbody l w = CNormal l' w' /\ poll__state l' = PStr sto
                                    /\ (forall f, g_poll_loop_stable f -> f l' = f Linit)
        end) end.
  1, 3: intros wbody Hwb; induction k as [|k IH]; intros j l w' ack resp d Hj Hk Hro Hst Hre Hte Hinv; [exact I|];
    rewrite poll_phase_unfold; unfold CLASS_CFG; rewrite Hcfg;
    destruct (wait B sk (S k) d w') as [[[f|]|] w2] eqn:Hw; [| |exact I];
    (destruct j as [|j]; [lia|]); cbn [s_while]; rewrite Hst;
    (replace (negb (py_eq (state_val ack) (PStr sok)) && negb (py_eq (state_val ack) (PStr sto))) with true
       by (destruct ack; reflexivity));
    rewrite Hwb; cbv beta; rewrite Hte, (proj1 (bridge_wait fuel' _)),
      (wait_mono (S k) fuel' d w' _ _ ltac:(lia) Hw); cbn;
    [ (* a frame arrived *)
      rewrite Hst; ro l Hro Linit; destruct ack; cbn;
      [ (* waiting for the ACK *)
        rewrite bridge_check_ack_nak; cbn;
        destruct (check_ack_nak (rq_cid rq) f); cbn;
        [ (destruct resp as [r|]; [|exfalso; apply Hinv; reflexivity]);
          (destruct j as [|j]; [lia|]); cbn; eexists; repeat split; cbn; try reflexivity; try assumption; stable_tac Hro
        | apply (IH j _ w2 true resp d); cbn; try assumption; try reflexivity; try lia; stable_tac Hro
        | apply (IH j _ w2 true resp d); cbn; try assumption; try reflexivity; try lia; stable_tac Hro ]
      | (* waiting for the response *)
        rewrite bridge_check_poll; cbn;
        destruct (cid_eqb (rf_cid f) (rq_cid rq)); cbn;
        [ ro l Hro Linit; rewrite ?cls_test, ?Hcfg; cbn;
          first [ (* configuration poll: on to the ACK *)
                  rewrite <- N2Z.inj_add;
                  apply (IH j _ w2 true (Some f) (wnow w2 + sdelay (wsrv w2))); cbn; try assumption; try reflexivity; try lia;
                  first [ discriminate | stable_tac Hro ]
                | (destruct j as [|j]; [lia|]); cbn; eexists; repeat split; cbn; try reflexivity; try assumption; stable_tac Hro ]
        | apply (IH j _ w2 false resp d); cbn; try assumption; try reflexivity; try lia; stable_tac Hro ] ]
    | (* timeout: left by `break`, or by the loop condition at the next iteration *)
      first [ eexists; repeat split; cbn; try reflexivity; try assumption; stable_tac Hro
            | (destruct j as [|j]; [lia|]); cbn; eexists; repeat split; cbn; try reflexivity; try assumption; stable_tac Hro ] ].
  all: match goal with |- run_body (s_for_range _ ?b _ _) = _ =>
    assert (Hfor : forall body, (forall l w, body l w = b l w) -> forall (n : nat) (w1 : W) (l0 : L_poll),
      (forall f, g_poll_loop_stable f -> f l0 = f Linit) ->
      fst (poll_attempts B sk fuel n (rq_cid rq) payload w1) <> OutOfFuel ->
      run_body (s_for_range n body l0 w1) = lift_out (poll_attempts B sk fuel n (rq_cid rq) payload w1)) end.
  1, 3: intros body Hb n; induction n as [|n IH]; intros w2 l0 Hl; [reflexivity|];
    cbn [s_for_range]; rewrite poll_attempts_unfold; rewrite Hb; cbv beta zeta; ro l0 Hl Linit; rewrite bridge_send;
    destruct (send B (do_flush B w2) (rq_cid rq) payload) as [ok w3]; cbn;
    (destruct ok; cbn; [|apply IH; stable_tac Hl]);
    unfold purge; cbn; rewrite ?with_parser_twice; rewrite <- N2Z.inj_add;
    match goal with |- context [s_while _ _ _ ?la ?wa] =>
      pose proof (Hwhile _ (fun _ _ => eq_refl) fuel fuel' la wa false None (wnow w3 + sdelay (wsrv w3))
                    Hf Hf ltac:(stable_tac Hl) eq_refl eq_refl eq_refl ltac:(discriminate)) as HW end;
    destruct (poll_phase B sk fuel (rq_cid rq) false None _ _) as [[f| |] w4]; cbn;
    [ intros _; destruct HW as (l' & -> & Hs & Hr & Hp); cbn; rewrite Hs; cbn; rewrite Hr; cbn; rewrite ?Hr; reflexivity
    | intros Hnf'; destruct HW as (l' & -> & Hs & Hp); cbn; rewrite Hs; cbn; apply IH; [stable_tac Hp | assumption]
    | intros Hnf'; exfalso; apply Hnf'; reflexivity ].
  all: apply (Hfor _ (fun _ _ => eq_refl)); [intros; reflexivity | exact Hnf].
Qed.
End Br.

Print Assumptions bridge_wait.
Print Assumptions bridge_check_ack_nak.
Print Assumptions bridge_check_mga.
Print Assumptions bridge_check_poll.
Print Assumptions bridge_send.
Print Assumptions bridge_set.
Print Assumptions bridge_set_mga.
Print Assumptions bridge_fire_and_forget.
Print Assumptions bridge_poll.
