(* Bridge lemmas (Tie B for the straight-line convenience setters, C17): CFG-RATE set_rate_in_hz, CFG-CFG save/reset, CFG-RST
   warm_start/cold_start/start/stop, UPD-SOS backup/clear, CFG-ESFLA set, MGA-INI-TIME_UTC set_datetime and the enable/disable
   bit of a CFG-GNSS flags item, translated from the source on this run (HelperKernels.v) = model/Helpers.v, for every field
   list and every argument. *)
From Coq Require Import String Lia Permutation.
From Ubx Require Import Fields Base Checksum Frame ParserUbx CfgKeys Request Helpers PySem.
From UbxGen Require Import HelperKernels.
Open Scope Z_scope.

Definition fv (v : fval) : pyval := match v with VInt z => PInt z | VStr s => PText s end.
Definition fmap (fs : fields) : list (string * pyval) := map (fun x => (fst (fst x), fv (snd x))) fs.
(* a frame object: its fields by name, in layout order *)
Definition fobj (fs : fields) : pyval := PObj [("f"%string, PObj (fmap fs))].

Lemma fld_set_setf fs n z : attr_set_existing (fmap fs) n (PInt z) = fmap (setf fs n (VInt z)).
Proof.
  induction fs as [|[[k t] v] r IH]; [reflexivity|].
  cbn [fmap map fst snd attr_set_existing setf]. fold (fmap r).
  destruct (String.eqb k n); [reflexivity|]. cbn [map fst snd]. fold (fmap r). fold (fmap (setf r n (VInt z))).
  rewrite IH. reflexivity.
Qed.

(* assignments to DISTINCT plain fields commute: a chain of them is determined by the set of (name, value) pairs, so the
   bridges do not depend on the order in which the code makes them *)
Lemma setf_comm fs a x b y : a <> b -> setf (setf fs a x) b y = setf (setf fs b y) a x.
Proof.
  intros Hab. induction fs as [|[[k t] v] r IH]; [reflexivity|].
  cbn [setf]. destruct (String.eqb k a) eqn:Ea; destruct (String.eqb k b) eqn:Eb; cbn [setf]; rewrite ?Ea, ?Eb; try reflexivity.
  - apply String.eqb_eq in Ea. apply String.eqb_eq in Eb. congruence.
  - rewrite IH. reflexivity.
Qed.
Fixpoint apply_sets (fs : fields) (l : list (string * Z)) : fields :=
  match l with [] => fs | (n, z) :: t => apply_sets (setf fs n (VInt z)) t end.
Lemma apply_sets_perm l1 l2 : Permutation l1 l2 -> NoDup (map fst l1) -> forall fs, apply_sets fs l1 = apply_sets fs l2.
Proof.
  induction 1 as [|[n z] l l' Hp IH|[n z] [m y] l|l l' l'' H1 IH1 H2 IH2]; intros Hn fs.
  - reflexivity.
  - cbn [apply_sets]. apply IH. inversion Hn; assumption.
  - cbn [apply_sets]. rewrite setf_comm; [reflexivity|]. cbn [map fst] in Hn. inversion Hn as [|? ? Hin _]. intros ->. apply Hin. left. reflexivity.
  - rewrite IH1 by exact Hn. apply IH2. eapply Permutation_NoDup; [|exact Hn]. apply Permutation_map. exact H1.
Qed.
Lemma NoDup_pairs (l : list (string * Z)) : NoDup (map fst l) -> NoDup l.
Proof.
  induction l as [|[n z] t IH]; intros H; [constructor|]. cbn [map fst] in H. inversion H as [|? ? Hin Ht]. constructor; [|exact (IH Ht)].
  intros Hi. apply Hin. change n with (fst (n, z)). apply in_map. exact Hi.
Qed.
Fixpoint nodupb (l : list string) : bool :=
  match l with [] => true | x :: t => negb (existsb (String.eqb x) t) && nodupb t end.
Lemma nodupb_ok l : nodupb l = true -> NoDup l.
Proof.
  induction l as [|x t IH]; intros H; [constructor|]. cbn [nodupb] in H. apply andb_prop in H. destruct H as [H1 H2].
  constructor; [|exact (IH H2)]. intros Hin. apply negb_true_iff in H1. assert (existsb (String.eqb x) t = true) as Hx.
  { apply existsb_exists. exists x. split; [exact Hin|apply String.eqb_refl]. } congruence.
Qed.
Lemma apply_sets_eq fs l1 l2 :
  nodupb (map fst l1) = true -> nodupb (map fst l2) = true -> incl l1 l2 -> (length l2 <= length l1)%nat ->
  apply_sets fs l1 = apply_sets fs l2.
Proof.
  intros H1 H2 Hi Hl. apply apply_sets_perm; [|apply nodupb_ok; exact H1].
  apply NoDup_Permutation_bis; [apply NoDup_pairs, nodupb_ok; exact H1|exact Hl|exact Hi].
Qed.
(* nested setf on integer values -> apply_sets fs [pairs in application order] *)
Ltac reify_sets t :=
  lazymatch t with
  | setf ?t' ?n (VInt ?z) => let r := reify_sets t' in constr:(List.app r [(n, z)])
  | _ => constr:(@nil (string * Z))
  end.
Ltac base_of t := lazymatch t with setf ?t' _ _ => base_of t' | _ => t end.
Ltac sets_norm :=
  repeat match goal with
  | |- context [fmap (setf ?a ?n (VInt ?z))] =>
      let t := constr:(setf a n (VInt z)) in let b := base_of t in let l := reify_sets t in
      let l' := eval cbn [List.app] in l in change (fmap t) with (fmap (apply_sets b l'))
  end.
Ltac sets_eq :=
  sets_norm;
  lazymatch goal with
  | |- ?lhs = ?rhs =>
      lazymatch lhs with
      | context [apply_sets ?b ?l1] =>
          lazymatch rhs with
          | context [apply_sets b ?l2] =>
              replace (apply_sets b l1) with (apply_sets b l2);
              [ reflexivity
              | symmetry; apply apply_sets_eq;
                [ reflexivity | reflexivity
                | let p := fresh "p" in let Hp := fresh "Hp" in
                  intros p Hp; cbn [In] in Hp |- *; repeat (destruct Hp as [Hp|Hp]; [subst p; auto 20|]); contradiction
                | cbn [length]; lia ] ]
          end
      end
  end.

Ltac py_unfold :=
  cbv beta iota zeta delta [s_seq s_call_assign s_call s_call_assign2 s_call_return s_if s_skip s_try s_return s_assign
    s_assert s_break s_continue s_update s_update_arg s_raise res_call find_handler].

Arguments attr_set_existing : simpl never. Arguments setf : simpl never. Arguments fmap : simpl never.
Arguments Z.leb : simpl never. Arguments Z.quot : simpl never. Arguments Z.div : simpl never.
Arguments Z.lor : simpl never. Arguments Z.land : simpl never.

(* call-by-need evaluation: every statement mentions the locals twice, so call-by-name (cbn) doubles the term per statement *)
Ltac helper := intros; unfold fobj; lazy -[attr_set_existing setf fmap Z.opp Z.leb Z.quot Z.div Z.lor Z.land Z.lnot];
  rewrite ?fld_set_setf; first [reflexivity | sets_eq].

Section Br.
Context {E : Type}.
Notation W := (world E).
Definition ret_f (fs : fields) (w : W) : @fres E := FRet (PTuple [PNone; fobj fs]) w.
Definition lift_f (r : res fields) (w : W) : @fres E := match r with Ok fs => ret_f fs w | Raise e => FRaise e w end.

Theorem bridge_cfg_save fuel fs m (w : W) : ghc_save (E := E) fuel (fobj fs) (PInt m) w = ret_f (cfg_save fs m) w.
Proof. unfold ghc_save, cfg_save, ret_f. helper. Qed.
Theorem bridge_cfg_reset fuel fs m (w : W) : ghc_reset (E := E) fuel (fobj fs) (PInt m) w = ret_f (cfg_reset fs m) w.
Proof. unfold ghc_reset, cfg_reset, ret_f. helper. Qed.
Theorem bridge_rst fuel fs (w : W) :
  ghs_warm_start (E := E) fuel (fobj fs) w = ret_f (warm_start fs) w
  /\ ghs_cold_start (E := E) fuel (fobj fs) w = ret_f (cold_start fs) w
  /\ ghs_start (E := E) fuel (fobj fs) w = ret_f (rst_start fs) w
  /\ ghs_stop (E := E) fuel (fobj fs) w = ret_f (rst_stop fs) w.
Proof.
  unfold ghs_warm_start, ghs_cold_start, ghs_start, ghs_stop, warm_start, cold_start, rst_start, rst_stop, rst, ret_f.
  repeat split; helper.
Qed.
Theorem bridge_sos fuel fs (w : W) :
  ghu_backup (E := E) fuel (fobj fs) w = ret_f (sos_backup fs) w /\ ghu_clear (E := E) fuel (fobj fs) w = ret_f (sos_clear fs) w.
Proof. unfold ghu_backup, ghu_clear, sos_backup, sos_clear, ret_f. split; helper. Qed.

Theorem bridge_rate fuel fs r (w : W) :
  ghr_set_rate_in_hz (E := E) fuel (fobj fs) (PInt r) w = lift_f (set_rate_in_hz fs r) w.
Proof.
  unfold ghr_set_rate_in_hz, set_rate_in_hz, lift_f, ret_f, fobj. py_unfold. cbn.
  destruct ((1 <=? r) && (r <=? 10)) eqn:Hr; cbn; [|reflexivity].
  rewrite !fld_set_setf. cbn.
  rewrite Z.quot_div_nonneg by lia. first [reflexivity | sets_eq].
Qed.

Theorem bridge_esfla_set fuel fs t x y z (w : W) :
  ghe_set (E := E) fuel (fobj fs) (PInt t) (PInt x) (PInt y) (PInt z) w = lift_f (esfla_set fs t x y z) w.
Proof.
  unfold ghe_set, esfla_set, lift_f, ret_f, fobj. py_unfold. cbn.
  destruct (t <=? 1); cbn; [|reflexivity].
  destruct ((-1000 <=? x) && (x <=? 1000)); cbn; [|reflexivity].
  destruct ((-1000 <=? y) && (y <=? 1000)); cbn; [|reflexivity].
  destruct ((-1000 <=? z) && (z <=? 1000)); cbn; [|reflexivity].
  rewrite !fld_set_setf. first [reflexivity | sets_eq].
Qed.

Definition dt_obj (year month day hour minute second : Z) : pyval :=
  PObj [("year"%string, PInt year); ("month"%string, PInt month); ("day"%string, PInt day);
        ("hour"%string, PInt hour); ("minute"%string, PInt minute); ("second"%string, PInt second)].
Theorem bridge_set_datetime fuel fs y mo d h mi s (w : W) :
  ght_set_datetime (E := E) fuel (fobj fs) (dt_obj y mo d h mi s) w = ret_f (set_datetime fs y mo d h mi s) w.
Proof.
  unfold ght_set_datetime, set_datetime, ret_f, dt_obj. helper.
Qed.

(* the enable bit of a CFG-GNSS flags item *)
Definition item_obj (v : Z) : pyval := PObj [("value"%string, PInt v)].
Theorem bridge_flags fuel v (w : W) :
  ghf_enable (E := E) fuel (item_obj v) w = FRet (PTuple [PNone; item_obj (Z.lor v 1)]) w
  /\ ghf_disable (E := E) fuel (item_obj v) w = FRet (PTuple [PNone; item_obj (Z.land v (-2))]) w.
Proof. unfold ghf_enable, ghf_disable, item_obj. split; py_unfold; cbn; reflexivity. Qed.
End Br.

Print Assumptions bridge_cfg_save.
Print Assumptions bridge_cfg_reset.
Print Assumptions bridge_rst.
Print Assumptions bridge_sos.
Print Assumptions bridge_rate.
Print Assumptions bridge_esfla_set.
Print Assumptions bridge_set_datetime.
Print Assumptions bridge_flags.
