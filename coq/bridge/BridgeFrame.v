(* Bridge lemmas (Tie B for kernels): UbxFrame._calc_checksum / to_bytes translated from the source = model. *)
From Coq Require Import Lia ZifyBool ZifyN ZifyNat.
From Ubx Require Import Fields Base Checksum Frame ChecksumP.
From UbxGen Require Import Kernels BridgeCk.

Definition to_fmodel (g : gframe) : frame :=
  mkFrame (gf_cls g) (gf_id g) (gf_data g) (ck_of (gf_ck g)) (Some (gf_cka g)) (Some (gf_ckb g)).

Lemma fold_set_ck (f : gframe -> N -> gframe) :
  (forall s d, f s d = set_gf_ck s (g_ck_add (gf_ck s) d)) ->
  forall data g, fold_left f data g = set_gf_ck g (fold_left g_ck_add data (gf_ck g)).
Proof.
  intros Hf. induction data as [|d t IH]; intros [c i dat k ka kb]; cbn [fold_left].
  - reflexivity.
  - rewrite Hf, IH. reflexivity.
Qed.

Lemma fold_ck_adds data : forall k, ck_of (fold_left g_ck_add data k) = ck_adds (ck_of k) data.
Proof.
  induction data as [|d t IH]; intros k; [reflexivity|].
  cbn [fold_left]. rewrite IH, bridge_ck_add. reflexivity.
Qed.

(* what the translated _calc_checksum computes, in closed form *)
Lemma calc_closed (g : gframe) :
  let k := fold_left g_ck_add (gf_data g)
             (g_ck_add (g_ck_add (g_ck_add (g_ck_add (g_ck_reset (gf_ck g)) (gf_cls g)) (gf_id g))
                (N.land (N.shiftr (N.of_nat (length (gf_data g))) 0) 255))
                (N.land (N.shiftr (N.of_nat (length (gf_data g))) 8) 255)) in
  g_calc_checksum g = mkGF (gf_cls g) (gf_id g) (gf_data g) k (fst (ck_of k)) (snd (ck_of k)).
Proof.
  destruct g as [c i dat k0 ka kb]. unfold g_calc_checksum.
  cbn [set_gf_ck set_gf_cka set_gf_ckb gf_ck gf_cls gf_id gf_data gf_cka gf_ckb].
  rewrite (fold_set_ck _ (fun s d => eq_refl)).
  reflexivity.
Qed.

Theorem bridge_calc_checksum : forall g,
  to_fmodel (g_calc_checksum g) = calc_checksum (to_fmodel g).
Proof.
  intros g. rewrite calc_closed. unfold to_fmodel, calc_checksum.
  cbn [gf_cls gf_id gf_data gf_ck gf_cka gf_ckb fr_cls fr_id fr_data fr_ck].
  unfold ck_value.
  rewrite fold_ck_adds. do 4 rewrite bridge_ck_add. rewrite bridge_ck_reset. reflexivity.
Qed.

Lemma to_bytes_closed (f : frame) :
  to_bytes f =
  let f' := calc_checksum f in
  ([181; 98; fr_cls f'; fr_id f'; N.land (N.shiftr (N.of_nat (length (fr_data f'))) 0) 255;
    N.land (N.shiftr (N.of_nat (length (fr_data f'))) 8) 255] ++ fr_data f' ++ [opt_get (fr_cka f'); opt_get (fr_ckb f')], f').
Proof. reflexivity. Qed.

Theorem bridge_to_bytes : forall g,
  fst (g_to_bytes g) = fst (to_bytes (to_fmodel g))
  /\ to_fmodel (snd (g_to_bytes g)) = snd (to_bytes (to_fmodel g)).
Proof.
  intros g. rewrite to_bytes_closed. rewrite <- bridge_calc_checksum.
  unfold g_to_bytes. cbv zeta.
  generalize (g_calc_checksum g). intros [c i dat k ka kb].
  unfold to_fmodel, fst, snd, gf_cls, gf_id, gf_data, gf_ck, gf_cka, gf_ckb, fr_cls, fr_id, fr_data, fr_cka, fr_ckb, opt_get.
  split; [|reflexivity].
  repeat rewrite <- app_assoc. reflexivity.
Qed.

Print Assumptions bridge_calc_checksum.
Print Assumptions bridge_to_bytes.
