(* PySem.v — semantics of the small structured-Python subset ("KPy-req") into which py/vlib/translate_req.py
   translates ubxlib/server_base.py on every run (Tie B for the request loop).  Definitions only.

   Values are dynamically typed (pyval); control flow is shallow: a statement is a function from the function's
   locals record and the world to a control outcome (normal / break / continue / return / raise / out of fuel);
   `while` runs on explicit fuel, `for _ in range(n)` on the count.  The PRIMITIVES below fix what the calls that
   leave server_base.py mean in terms of the hand model (Request.v): backend hooks, parser API, frame factory,
   frame.pack()/to_bytes(), time.time().  They are the trusted part of this tie; everything between them -
   the loops, deadlines, state strings, retries, checks, early returns, exception handlers - is translated. *)
From Coq Require Import String.
From Ubx Require Import Fields Base Checksum Frame ParserUbx ParserNmea CfgKeys Request Gpsd.
Open Scope N_scope.

Inductive pyval :=
| PNone
| PBool (b : bool)
| PInt (z : Z)                                   (* ints; times are milliseconds on the virtual clock *)
| PStr (s : string)
| PBytes (b : bytes)
| PCid (c : Z * Z)                               (* UbxCID(cls, id) *)
| PList (l : list pyval)
| PTuple (l : list pyval)
| PFrame (f : rframe)                            (* a decoded answer frame object *)
| PReq (rq : request) (data : option bytes)      (* a request frame object; data = payload stored by pack() *)
| PCls (c : cid) (k : string * rkind)            (* a frame class: its CID and how it decodes *)
| PFactory                                       (* the FrameFactory singleton *)
| PUbxParser (p : parser)                        (* a UbxParser object held in a local (scan()) *)
| PNmeaParser (n : nparser)                      (* a NmeaParser object held in a local (scan()) *)
| PObj (attrs : list (string * pyval))           (* a plain object: its attributes (CfgKeyData, Item) *)
| PText (b : bytes)                              (* a Python str holding text data, as its UTF-8 encoding (CH fields) *)
| PDict (m : list (string * pyval))              (* a dict with string keys, in insertion order (json.loads) *)
| PChunk (c : chunk)                             (* a block of bytes received from the gpsd data socket *)
| PLine (l : line).                              (* one line of such a block, as text *)

Definition cidZ (c : cid) : Z * Z := (Z.of_N (fst c), Z.of_N (snd c)).
Definition cidN (c : Z * Z) : cid := (Z.to_N (fst c), Z.to_N (snd c)).

(* ---- pure operations --------------------------------------------------------------------------- *)
Definition is_nil {A} (l : list A) : bool := match l with [] => true | _ => false end.

(* bool(x).  UbxFrame and UbxCID define neither __bool__ nor __len__ (checked by the translator): objects are true *)
Definition truthy (v : pyval) : bool :=
  match v with
  | PNone => false
  | PBool b => b
  | PInt z => negb (z =? 0)%Z
  | PStr s => negb (String.eqb s "")
  | PBytes b => negb (is_nil b)
  | PList l | PTuple l => negb (is_nil l)
  | PCid _ | PFrame _ | PReq _ _ | PCls _ _ | PFactory | PUbxParser _ | PNmeaParser _ | PObj _ => true
  | PText b => negb (is_nil b)
  | PDict m => negb (is_nil m)
  | PChunk _ | PLine _ => true
  end.

(* == on the kinds the code compares: None, bool, int, str, bytes, UbxCID (its __eq__ compares cls and id) *)
Definition py_eq (a b : pyval) : bool :=
  match a, b with
  | PNone, PNone => true
  | PBool x, PBool y => Bool.eqb x y
  | PInt x, PInt y => (x =? y)%Z
  | PBool x, PInt y | PInt y, PBool x => ((if x then 1 else 0) =? y)%Z
  | PStr x, PStr y => String.eqb x y
  | PBytes x, PBytes y => list_eqb x y
  | PCid x, PCid y => ((fst x =? fst y) && (snd x =? snd y))%Z
  | _, _ => false
  end.
Definition py_is_none (a : pyval) : bool := match a with PNone => true | _ => false end.

Definition py_lt (a b : pyval) : bool := match a, b with PInt x, PInt y => (x <? y)%Z | _, _ => false end.
Definition py_le (a b : pyval) : bool := match a, b with PInt x, PInt y => (x <=? y)%Z | _, _ => false end.
Definition py_add (a b : pyval) : pyval :=
  match a, b with
  | PInt x, PInt y => PInt (x + y) | PBytes x, PBytes y => PBytes (x ++ y) | PStr x, PStr y => PStr (x ++ y)
  | _, _ => PNone
  end.
Definition py_sub (a b : pyval) : pyval := match a, b with PInt x, PInt y => PInt (x - y) | _, _ => PNone end.
(* `<milliseconds> / 1000.0`: seconds; times are kept in milliseconds, so the number stays *)
Definition py_ms_to_s (a : pyval) : pyval := match a with PInt x => PInt x | _ => PNone end.

Definition py_mk_cid (a b : pyval) : pyval := match a, b with PInt x, PInt y => PCid (x, y) | _, _ => PNone end.

(* obj.<name> for the attributes the code reads *)
Definition py_attr (v : pyval) (name : string) : pyval :=
  match v with
  | PReq rq _ => if String.eqb name "CID" then PCid (cidZ (rq_cid rq)) else PNone
  | PFrame f => if String.eqb name "CID" then PCid (cidZ (rf_cid f)) else PNone
  | PCls c _ => if String.eqb name "CID" then PCid (cidZ c) else PNone
  | PCid c => if String.eqb name "cls" then PInt (fst c) else if String.eqb name "id" then PInt (snd c) else PNone
  | PUbxParser p => if String.eqb name "frames_rx" then PInt (Z.of_N (rx p)) else PNone
  | PNmeaParser n => if String.eqb name "frames_rx" then PInt (Z.of_N (nrx n)) else PNone
  | _ => PNone
  end.
(* obj.f.<name>: a decoded field *)
Definition py_field (v : pyval) (name : string) : pyval :=
  match v with
  | PFrame f => match dec_getf (rf_dec f) name with
                | Some (Fields.VInt z) => PInt z
                | Some (Fields.VStr s) => PBytes s
                | None => PNone
                end
  | _ => PNone
  end.
Definition py_is_frame (v : pyval) : bool := match v with PReq _ _ | PFrame _ => true | _ => false end.
Definition py_is_cid (v : pyval) : bool := match v with PCid _ => true | _ => false end.
Definition py_is_list (v : pyval) : bool := match v with PList _ => true | _ => false end.

(* ---- plain objects, byte strings, struct (cfgkeys.py) ---------------------------------------------- *)
Fixpoint attr_get (l : list (string * pyval)) (name : string) : pyval :=
  match l with [] => PNone | (k, v) :: t => if String.eqb k name then v else attr_get t name end.
Fixpoint attr_set (l : list (string * pyval)) (name : string) (v : pyval) : list (string * pyval) :=
  match l with
  | [] => [(name, v)]
  | (k, x) :: t => if String.eqb k name then (k, v) :: t else (k, x) :: attr_set t name v
  end.
Definition py_getattr (o : pyval) (name : string) : pyval := match o with PObj l => attr_get l name | _ => PNone end.
Definition py_setattr (o : pyval) (name : string) (v : pyval) : pyval :=
  match o with PObj l => PObj (attr_set l name v) | x => x end.
Definition py_len (a : pyval) : pyval := match a with PBytes b => PInt (Z.of_nat (length b)) | _ => PNone end.
Definition py_slice_to (a n : pyval) : pyval := match a, n with PBytes b, PInt z => PBytes (firstn (Z.to_nat z) b) | _, _ => PNone end.
Definition py_slice_from (a n : pyval) : pyval := match a, n with PBytes b, PInt z => PBytes (skipn (Z.to_nat z) b) | _, _ => PNone end.
Definition py_index (a : pyval) (k : nat) : pyval := match a with PTuple l | PList l => nth k l PNone | _ => PNone end.
Definition py_and (a b : pyval) : pyval := match a, b with PInt x, PInt y => PInt (Z.land x y) | _, _ => PNone end.

(* struct.pack / struct.unpack for the one-value little-endian formats *)
Definition fmt_of (s : string) : option (bool * nat) :=
  if String.eqb s "<B" then Some (false, 1%nat) else if String.eqb s "<b" then Some (true, 1%nat)
  else if String.eqb s "<H" then Some (false, 2%nat) else if String.eqb s "<h" then Some (true, 2%nat)
  else if String.eqb s "<I" then Some (false, 4%nat) else if String.eqb s "<i" then Some (true, 4%nat)
  else if String.eqb s "<Q" then Some (false, 8%nat) else if String.eqb s "<q" then Some (true, 8%nat)
  else None.
Definition py_struct_pack (fmt : string) (v : pyval) : res pyval :=
  match fmt_of fmt with
  | None => Raise StructError
  | Some (sg, w) =>
      match v with
      | PInt z => match pack_int sg w (Fields.VInt z) with Ok b => Ok (PBytes b) | Raise e => Raise e end
      | PBool b => match pack_int sg w (Fields.VInt (if b then 1 else 0)) with Ok b => Ok (PBytes b) | Raise e => Raise e end
      | _ => Raise StructError
      end
  end.
Definition py_struct_unpack (fmt : string) (data : pyval) : res pyval :=
  match fmt_of fmt, data with
  | Some (sg, w), PBytes b => match unpack_int sg w b with Ok z => Ok (PTuple [PInt z]) | Raise e => Raise e end
  | _, _ => Raise StructError
  end.

(* struct with a format computed at run time ('<' + self.fmt), struct.calcsize *)
Definition py_struct_pack_v (fmt v : pyval) : res pyval := match fmt with PStr s => py_struct_pack s v | _ => Raise TypeError end.
Definition py_struct_unpack_v (fmt d : pyval) : res pyval := match fmt with PStr s => py_struct_unpack s d | _ => Raise TypeError end.
Definition py_calcsize (fmt : pyval) : res pyval :=
  match fmt with
  | PStr s => match fmt_of s with Some (_, w) => Ok (PInt (Z.of_nat w)) | None => Raise StructError end
  | _ => Raise TypeError
  end.
(* text: str.encode() / bytes.decode() (UTF-8, strict) / str.rstrip('\x00'); bytes(n) *)
Definition py_encode (v : pyval) : res pyval :=
  match v with PText b => Ok (PBytes b) | _ => Raise AttributeError end.
Definition py_decode (v : pyval) : res pyval :=
  match v with PBytes b => if utf8_valid b then Ok (PText b) else Raise UnicodeError | _ => Raise AttributeError end.
Definition py_rstrip0 (v : pyval) : pyval := match v with PText b => PText (rstrip0 b) | x => x end.
Definition py_zero_bytes (n : pyval) : pyval := match n with PInt z => PBytes (zeros (Z.to_nat z)) | _ => PNone end.

(* frame.f.<name> = v on a frame whose fields are held by name (convenience setters): Fields.__setattr__ sets the value of an
   existing field; frame.f.<name> reads it; `int(a / b)` truncates towards zero; a datetime argument is an object with
   year .. second attributes *)
Fixpoint attr_set_existing (l : list (string * pyval)) (name : string) (v : pyval) : list (string * pyval) :=
  match l with
  | [] => []
  | (k, x) :: t => if String.eqb k name then (k, v) :: t else (k, x) :: attr_set_existing t name v
  end.
Definition py_fld_set (f : pyval) (name : string) (v : pyval) : pyval :=
  match f with PObj l => PObj (attr_set_existing l name v) | x => x end.
Definition py_trunc_div (a b : pyval) : pyval := match a, b with PInt x, PInt y => PInt (Z.quot x y) | _, _ => PNone end.
Definition py_neg (a : pyval) : pyval := match a with PInt x => PInt (- x) | _ => PNone end.
Definition py_or (a b : pyval) : pyval := match a, b with PInt x, PInt y => PInt (Z.lor x y) | _, _ => PNone end.
Definition py_invert (a : pyval) : pyval := match a with PInt x => PInt (Z.lnot x) | _ => PNone end.

(* fields by computed name (CFG-GNSS helpers): f'prefix{i}', range(n), self.f.get(name) -> the item (an object with .value),
   self.f._fields[name].<method>() writes the item's value back *)
Fixpoint attr_find (l : list (string * pyval)) (name : string) : option pyval :=
  match l with [] => None | (k, v) :: t => if String.eqb k name then Some v else attr_find t name end.
Definition py_fld_item (f name : pyval) : res pyval :=
  match f, name with
  | PObj l, PStr n => match attr_find l n with Some v => Ok (PObj [("value"%string, v)]) | None => Raise KeyError end
  | _, _ => Raise TypeError
  end.
Definition py_fld_set_v (f name v : pyval) : pyval := match name with PStr n => py_fld_set f n v | _ => f end.
Definition py_fstr (prefix : string) (v : pyval) : pyval :=
  match v with PInt z => if (z <? 0)%Z then PNone else PStr (prefix ++ dec (Z.to_nat z)) | _ => PNone end.
Definition py_range (v : pyval) : pyval :=
  match v with PInt z => PList (map (fun k => PInt (Z.of_nat k)) (seq 0 (Z.to_nat z))) | _ => PNone end.

(* Fields objects and freshly constructed items (VALGET response) *)
Definition py_new_fields : pyval := PObj [("items"%string, PList [])].
Definition py_fields_add (f x : pyval) : pyval :=
  match py_getattr f "items" with PList l => py_setattr f "items" (PList (l ++ [x])) | _ => f end.
Definition py_new_int_item (fmt : string) : pyval := PObj [("fmt"%string, PStr fmt); ("value"%string, PInt 0)].
Definition py_new_cfgkey : pyval :=
  PObj [("group_id"%string, PNone); ("item_id"%string, PNone); ("bits"%string, PInt 0);
        ("signed"%string, PBool false); ("value"%string, PNone)].
(* UbxFrame.unpack() = self.f.unpack(self.data) over integer items: one Item.unpack after the other (BridgeItems.v);
   returns the unread rest and the fields with their new values *)
Fixpoint items_unpack (items : list pyval) (data : bytes) : res (list pyval * bytes) :=
  match items with
  | [] => Ok ([], data)
  | it :: t =>
      match py_getattr it "fmt" with
      | PStr f =>
          match fmt_of ("<" ++ f) with
          | Some (sg, w) =>
              match unpack_int sg w (firstn w data) with
              | Ok z => match items_unpack t (skipn w data) with
                        | Ok (r, rest) => Ok (py_setattr it "value" (PInt z) :: r, rest)
                        | Raise e => Raise e
                        end
              | Raise e => Raise e
              end
          | None => Raise StructError
          end
      | _ => Raise AttributeError
      end
  end.
Definition py_frame_unpack (f data : pyval) : res pyval :=
  match py_getattr f "items", data with
  | PList items, PBytes d =>
      match items_unpack items d with
      | Ok (items', rest) => Ok (PTuple [PBytes rest; py_setattr f "items" (PList items')])
      | Raise e => Raise e
      end
  | _, _ => Raise AttributeError
  end.

(* the static helpers of CfgKeyData and the key database (their own Tie B: BridgeCfgKeys.v, reflected tables) *)
Definition py_build_header (g i b : pyval) : res pyval :=
  match g, i, b with
  | PInt g, PInt i, PInt b => match build_header g i b with Ok h => Ok (PInt (Z.of_N h)) | Raise e => Raise e end
  | _, _, _ => Raise TypeError
  end.
Definition py_bits_from_key (k : pyval) : res pyval := match k with PInt z => Ok (PInt (bits_from_key (Z.to_N z))) | _ => Raise TypeError end.
Definition py_group_from_key (k : pyval) : res pyval := match k with PInt z => Ok (PInt (group_from_key (Z.to_N z))) | _ => Raise TypeError end.
Definition py_item_from_key (k : pyval) : res pyval := match k with PInt z => Ok (PInt (item_from_key (Z.to_N z))) | _ => Raise TypeError end.
Definition py_bytes_for_size (b : pyval) : res pyval :=
  match b with
  | PInt z => match bytes_from_bits z with Some w => Ok (PInt (Z.of_nat w)) | None => Raise ValueError end
  | _ => Raise ValueError
  end.
Definition py_key_sign (sk : list N) (k : pyval) : res pyval := match k with PInt z => Ok (PBool (sign_of sk (Z.to_N z))) | _ => Raise TypeError end.

(* ---- JSON values, dicts, the lines of a gpsd block (server.py) ------------------------------------- *)
Fixpoint jv (v : json) : pyval :=
  match v with
  | JObj m => PDict ((fix go (l : list (string * json)) : list (string * pyval) :=
                        match l with [] => [] | (k, x) :: t => (k, jv x) :: go t end) m)
  | JArr l => PList ((fix go (l : list json) : list pyval := match l with [] => [] | x :: t => jv x :: go t end) l)
  | JStr s => PStr s
  | JNum => PInt 0                (* some number: nothing in the handshake depends on which *)
  | JBool b => PBool b
  | JNull => PNone
  end.
(* dict lookup as json.loads builds it: the last duplicate wins *)
Fixpoint dict_get (m : list (string * pyval)) (k : string) : option pyval :=
  match m with
  | [] => None
  | (k', v) :: t => match dict_get t k with Some x => Some x | None => if String.eqb k k' then Some v else None end
  end.
Definition py_is_dict (v : pyval) : bool := match v with PDict _ => true | _ => false end.
Definition py_in (k d : pyval) : bool :=
  match k, d with PStr s, PDict m => match dict_get m s with Some _ => true | None => false end | _, _ => false end.
(* d[k]: KeyError on a dict without the key; TypeError on anything that is not subscriptable by a string *)
Definition py_getitem (d k : pyval) : res pyval :=
  match d, k with
  | PDict m, PStr s => match dict_get m s with Some v => Ok v | None => Raise KeyError end
  | _, _ => Raise TypeError
  end.
(* data.decode().splitlines(): UnicodeDecodeError on binary data *)
Definition py_decode_lines (d : pyval) : res pyval :=
  match d with
  | PChunk Undecodable => Raise UnicodeError
  | PChunk (Lines ls) => Ok (PList (map PLine ls))
  | _ => Raise AttributeError
  end.
(* json.loads(line): JSONDecodeError (a ValueError; a RecursionError on absurd nesting is lumped with it) or the value *)
Definition py_json_loads (l : pyval) : res pyval :=
  match l with PLine NotJson => Raise ValueError | PLine (J v) => Ok (jv v) | _ => Raise TypeError end.

(* local parser objects of scan(): UbxParser(None) has no filter; obj.process(data) updates the object *)
Definition py_new_ubx_parser (crc_cid : pyval) : pyval := PUbxParser (fresh None).
Definition py_new_nmea_parser : pyval := PNmeaParser nfresh.
Definition py_obj_process (data : pyval) (obj : pyval) : res pyval :=
  match obj, data with
  | PUbxParser p, PBytes d => Ok (PUbxParser (process p d))
  | PNmeaParser n, PBytes d => Ok (PNmeaParser (nprocess n d))
  | _, _ => Raise TypeError
  end.

(* Python's exception hierarchy as far as the handlers need it: UnicodeError is a ValueError *)
Definition exn_isinstance (e cls : exn) : bool :=
  exn_eqb e cls || (exn_eqb e UnicodeError && exn_eqb cls ValueError).
Definition exn_caught (e : exn) (classes : list exn) : bool := existsb (exn_isinstance e) classes.

(* ---- control ----------------------------------------------------------------------------------- *)
Section Sem.
Context {E : Type} (B : backend E) (sk : list N).
Notation W := (world E).

(* result of a function call *)
Inductive fres := FRet (v : pyval) (w : W) | FRaise (e : exn) (w : W) | FFuel (w : W).

Definition res_call (r : res pyval) (w : W) : fres := match r with Ok v => FRet v w | Raise e => FRaise e w end.

Section Stmt.
Context {L : Type}.
Inductive ctl :=
| CNormal (l : L) (w : W)
| CBreak (l : L) (w : W)
| CContinue (l : L) (w : W)
| CReturn (v : pyval) (w : W)
| CRaise (e : exn) (l : L) (w : W)
| CFuel (w : W).
Definition stmt := L -> W -> ctl.

Definition s_skip : stmt := fun l w => CNormal l w.
Definition s_seq (a b : stmt) : stmt := fun l w =>
  match a l w with CNormal l' w' => b l' w' | other => other end.
Definition s_if (c : L -> W -> bool) (a b : stmt) : stmt := fun l w => if c l w then a l w else b l w.
Definition s_assign (set : L -> pyval -> L) (e : L -> W -> pyval) : stmt := fun l w => CNormal (set l (e l w)) w.
Definition s_return (e : L -> W -> pyval) : stmt := fun l w => CReturn (e l w) w.
Definition s_break : stmt := fun l w => CBreak l w.
Definition s_continue : stmt := fun l w => CContinue l w.
Definition s_assert (c : L -> W -> bool) : stmt := fun l w => if c l w then CNormal l w else CRaise AssertionError l w.
Definition s_raise (e : exn) : stmt := fun l w => CRaise e l w.
(* x = f(...) / f(...) / a, b = f(...) / return f(...) *)
Definition s_call_assign (set : L -> pyval -> L) (call : L -> W -> fres) : stmt := fun l w =>
  match call l w with
  | FRet v w' => CNormal (set l v) w'
  | FRaise e w' => CRaise e l w'
  | FFuel w' => CFuel w'
  end.
Definition s_call (call : L -> W -> fres) : stmt := s_call_assign (fun l _ => l) call.
Definition s_call_assign2 (set1 set2 : L -> pyval -> L) (call : L -> W -> fres) : stmt := fun l w =>
  match call l w with
  | FRet (PTuple [a; b]) w' => CNormal (set2 (set1 l a) b) w'
  | FRet _ w' => CRaise TypeError l w'
  | FRaise e w' => CRaise e l w'
  | FFuel w' => CFuel w'
  end.
Definition s_call_return (call : L -> W -> fres) : stmt := fun l w =>
  match call l w with
  | FRet v w' => CReturn v w'
  | FRaise e w' => CRaise e l w'
  | FFuel w' => CFuel w'
  end.
(* x.pack(): stores the payload in the object held by the local *)
Definition s_update (get : L -> pyval) (set : L -> pyval -> L) (f : pyval -> res pyval) : stmt := fun l w =>
  match f (get l) with Ok v => CNormal (set l v) w | Raise e => CRaise e l w end.

(* obj.method(arg) on an object held in a local: the updated object replaces it *)
Definition s_update_arg (get : L -> pyval) (set : L -> pyval -> L) (arg : L -> W -> pyval) (f : pyval -> pyval -> res pyval) : stmt := fun l w =>
  match f (arg l w) (get l) with Ok v => CNormal (set l v) w | Raise e => CRaise e l w end.

(* while <cond>: <body>.  The condition may touch the world's ghost state (deadline ties). *)
Fixpoint s_while (fuel : nat) (cond : L -> W -> bool * W) (body : stmt) : stmt := fun l w =>
  match fuel with
  | O => CFuel w
  | S k =>
      let (c, w1) := cond l w in
      if c then
        match body l w1 with
        | CNormal l' w' | CContinue l' w' => s_while k cond body l' w'
        | CBreak l' w' => CNormal l' w'
        | other => other
        end
      else CNormal l w1
  end.
(* for _ in range(n): <body>   (the loop variable is only logged) *)
Fixpoint s_for_range (n : nat) (body : stmt) : stmt := fun l w =>
  match n with
  | O => CNormal l w
  | S k =>
      match body l w with
      | CNormal l' w' | CContinue l' w' => s_for_range k body l' w'
      | CBreak l' w' => CNormal l' w'
      | other => other
      end
  end.
(* for x in <list>: <body>   (only lists are iterable here: iterating anything else raises TypeError) *)
Fixpoint s_for_items (items : list pyval) (setvar : L -> pyval -> L) (body : stmt) : stmt := fun l w =>
  match items with
  | [] => CNormal l w
  | x :: t =>
      match body (setvar l x) w with
      | CNormal l' w' | CContinue l' w' => s_for_items t setvar body l' w'
      | CBreak l' w' => CNormal l' w'
      | other => other
      end
  end.
Definition s_for_list (it : L -> W -> pyval) (setvar : L -> pyval -> L) (body : stmt) : stmt := fun l w =>
  match it l w with PList items => s_for_items items setvar body l w | _ => CRaise TypeError l w end.
Definition range_count (v : pyval) : nat := match v with PInt z => Z.to_nat z | _ => O end.

(* try: <body> except <classes1>: <h1> except <classes2>: <h2> ... *)
Fixpoint find_handler (e : exn) (hs : list (list exn * stmt)) : option stmt :=
  match hs with
  | [] => None
  | (classes, h) :: t => if exn_caught e classes then Some h else find_handler e t
  end.
Definition s_try (body : stmt) (hs : list (list exn * stmt)) : stmt := fun l w =>
  match body l w with
  | CRaise e l' w' => match find_handler e hs with Some h => h l' w' | None => CRaise e l' w' end
  | other => other
  end.

(* a function body: falling off the end returns None *)
Definition run_body (c : ctl) : fres :=
  match c with
  | CNormal _ w | CBreak _ w | CContinue _ w => FRet PNone w
  | CReturn v w => FRet v w
  | CRaise e _ w => FRaise e w
  | CFuel w => FFuel w
  end.
End Stmt.

(* ---- primitives: the world outside server_base.py, in terms of Request.v --------------------------- *)
(* time.time(), in milliseconds of the virtual clock *)
Definition p_time (w : W) : pyval := PInt (Z.of_N (wnow w)).
(* `time.time() < d` as a loop condition: also records an exact tie in the ghost flag, as the model does *)
Definition p_before (w : W) (d : pyval) : bool * W :=
  match d with
  | PInt z => ((Z.of_N (wnow w) <? z)%Z,
               mkWorld (wsrv w) (wenv w) (wnow w) (wtrace w) (wtie w || (Z.of_N (wnow w) =? z)%Z))
  | _ => (false, w)
  end.
Definition p_max_retries (w : W) : pyval := PInt (Z.of_nat (sretries (wsrv w))).
Definition p_retry_delay (w : W) : pyval := PInt (Z.of_N (sdelay (wsrv w))).

Definition prim_flush (w : W) : fres := FRet PNone (do_flush B w).
Definition prim_recover (w : W) : fres := FRet PNone (do_recover B w).
Definition prim_transmit (w : W) (data : pyval) : fres :=
  match data with
  | PBytes msg => let (ok, e') := transmit B (wenv w) msg in FRet (PBool ok) (log w e' (wnow w) (Tx msg ok))
  | _ => FRaise TypeError w
  end.
Definition prim_receive (w : W) : fres :=
  let '(data, dt, e') := receive B (wenv w) in
  FRet (match data with Some d => PBytes d | None => PNone end) (log w e' (wnow w + dt) (Rx data dt)).

Definition prim_process (w : W) (data : pyval) : fres :=
  match data with
  | PBytes d => FRet PNone (with_parser w (process (sparser (wsrv w)) d))
  | _ => FRaise TypeError w
  end.
Definition pkt_val (x : option pkt) : pyval :=
  match x with
  | Some (Pkt c i payload) => PTuple [PCid (cidZ (c, i)); PBytes payload]
  | Some CrcErr => PTuple [PCid (cidZ CID_CRC_ERROR); PNone]
  | None => PTuple [PNone; PNone]
  end.
Definition prim_packet (w : W) : fres :=
  let (x, p') := packet (sparser (wsrv w)) in FRet (pkt_val x) (with_parser w p').
Definition prim_empty_queue (w : W) : fres := FRet PNone (with_parser w (empty_queue (sparser (wsrv w)))).
Definition prim_restart (w : W) : fres := FRet PNone (with_parser w (restart (sparser (wsrv w)))).
Fixpoint cids_of (l : list pyval) : option (list cid) :=
  match l with
  | [] => Some []
  | PCid c :: t => match cids_of t with Some r => Some (cidN c :: r) | None => None end
  | _ :: _ => None
  end.
Definition prim_set_filters (w : W) (v : pyval) : fres :=
  match v with
  | PList l => match cids_of l with
               | Some cs => FRet PNone (with_parser w (set_filters (sparser (wsrv w)) cs))
               | None => FRaise TypeError w
               end
  | _ => FRaise AssertionError w          (* assert isinstance(cids, list) *)
  end.
Definition prim_set_filter (w : W) (v : pyval) : fres :=
  match v with
  | PCid c => FRet PNone (with_parser w (set_filter (sparser (wsrv w)) (cidN c)))
  | _ => FRaise AssertionError w          (* assert isinstance(cid, UbxCID) *)
  end.

(* FrameFactory: register(cls) stores the class under its CID; build_with_data looks it up (KeyError) and decodes *)
Definition prim_register (w : W) (v : pyval) : fres :=
  match v with
  | PCls c k => FRet PNone (with_reg w (reg_register (sreg (wsrv w)) c k))
  | _ => FRaise TypeError w
  end.
Definition prim_build (w : W) (c data : pyval) : fres :=
  match c, data with
  | PCid cz, PBytes payload =>
      match reg_lookup (sreg (wsrv w)) (cidN cz) with
      | None => FRaise KeyError w
      | Some (name, rk) =>
          match build_with_data sk rk payload with
          | Ok d => FRet (PFrame (mkRFrame name (cidN cz) payload d)) w
          | Raise e => FRaise e w
          end
      end
  | _, _ => FRaise TypeError w
  end.

(* request frame objects *)
Definition prim_cls_response (w : W) (v : pyval) : fres :=
  match v with PReq rq _ => FRet (PCls (rq_cid rq) (rq_resp rq)) w | _ => FRaise AttributeError w end.
Definition py_pack (v : pyval) : res pyval :=
  match v with
  | PReq rq _ => match pack_body (rq_body rq) with Ok p => Ok (PReq rq (Some p)) | Raise e => Raise e end
  | _ => Raise AttributeError
  end.
Definition prim_to_bytes (w : W) (v : pyval) : fres :=
  match v with
  | PReq rq d =>
      let payload := match d with Some p => p | None => [] end in
      FRet (PBytes (fst (to_bytes (new_frame (fst (rq_cid rq)) (snd (rq_cid rq)) payload)))) w
  | _ => FRaise AttributeError w
  end.
End Sem.

Arguments ctl : clear implicits.
Arguments stmt : clear implicits.
