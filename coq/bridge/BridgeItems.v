(* Bridge lemmas (Tie B for the field codecs): Item.pack/unpack (all integer field types), Padding.pack/unpack and
   CH.pack/unpack of ubxlib/types.py translated from the source on this run (ItemKernels.v, over PySem.v) = the hand model
   Fields.v (pack_item / unpack_item), for every value and every byte string. *)
From Coq Require Import String Lia ZifyBool ZifyN ZifyNat.
From Ubx Require Import Fields Base Checksum Frame ParserUbx CfgKeys Request PySem FieldsP.
From UbxGen Require Import ItemKernels.
Open Scope N_scope.

Definition fv (v : fval) : pyval := match v with VInt z => PInt z | VStr s => PText s end.
Definition int_obj (fmt : string) (v : fval) : pyval := PObj [("fmt"%string, PStr fmt); ("value"%string, fv v)].
Definition len_obj (n : nat) (v : fval) : pyval := PObj [("length"%string, PInt (Z.of_nat n)); ("value"%string, fv v)].

Ltac py_unfold :=
  cbv beta iota zeta delta [s_seq s_call_assign s_call s_call_assign2 s_call_return s_if s_skip s_try s_return s_assign
    s_assert s_break s_continue s_update s_update_arg s_raise res_call find_handler].

Arguments pack_int : simpl never. Arguments unpack_int : simpl never. Arguments utf8_valid : simpl never.
Arguments rstrip0 : simpl never. Arguments zeros : simpl never. Arguments firstn : simpl never.
Arguments Nat.ltb : simpl never. Arguments Nat.leb : simpl never. Arguments Z.ltb : simpl never. Arguments Z.of_nat : simpl never. Arguments Z.to_nat : simpl never. Arguments Z.sub : simpl never.

(* which struct format each integer field class declares, and what the u-blox type of that name is *)
Definition fty_of_class (name : string) : option fty :=
  if String.eqb name "U1" then Some (TU 1) else if String.eqb name "U2" then Some (TU 2) else if String.eqb name "U4" then Some (TU 4)
  else if String.eqb name "I1" then Some (TI 1) else if String.eqb name "I2" then Some (TI 2) else if String.eqb name "I4" then Some (TI 4)
  else if String.eqb name "X1" then Some (TX 1) else if String.eqb name "X2" then Some (TX 2) else if String.eqb name "X4" then Some (TX 4)
  else None.
Definition fmt_matches (t : fty) (fmt : string) : bool :=
  match fmt_of ("<" ++ fmt), t with
  | Some (sg, w), TU w' | Some (sg, w), TX w' => negb sg && Nat.eqb w w'
  | Some (sg, w), TI w' => sg && Nat.eqb w w'
  | _, _ => false
  end.
(* every integer field class of the current source declares the format of its type *)
Theorem item_formats_right :
  forallb (fun nf => match fty_of_class (fst nf) with Some t => fmt_matches t (snd nf) | None => false end) g_item_fmts = true
  /\ length g_item_fmts = 9%nat.
Proof. split; vm_compute; reflexivity. Qed.

Section Br.
Context {E : Type}.
Notation W := (world E).

Definition lift_pack (self : pyval) (r : res bytes) (w : W) : @fres E :=
  match r with Ok b => FRet (PTuple [PBytes b; self]) w | Raise e => FRaise e w end.

Theorem bridge_item_pack fuel t fmt v (w : W) :
  fmt_matches t fmt = true -> (match t with TU _ | TX _ | TI _ => True | _ => False end) ->
  gi_pack (E := E) fuel (int_obj fmt v) w = lift_pack (int_obj fmt v) (pack_item t v) w.
Proof.
  intros Hm Ht. unfold gi_pack, int_obj. py_unfold. cbn. unfold py_struct_pack.
  unfold fmt_matches in Hm. cbn [append] in Hm. destruct (fmt_of (String "<" fmt)) as [[sg wd]|]; [|discriminate Hm].
  destruct t as [w'|w'|w'|n|n]; try contradiction; cbn [pack_item];
    apply andb_true_iff in Hm; destruct Hm as [Hs Hw]; apply Nat.eqb_eq in Hw; subst w';
    destruct sg; try discriminate Hs;
    destruct v as [z|s]; cbn; try reflexivity; destruct (pack_int _ _ _); reflexivity.
Qed.

Definition lift_unpack_int (fmt : string) (wd : nat) (r : res Z) (w : W) : @fres E :=
  match r with Ok z => FRet (PTuple [PInt (Z.of_nat wd); int_obj fmt (VInt z)]) w | Raise e => FRaise e w end.

Theorem bridge_item_unpack fuel t fmt v0 data (w : W) :
  fmt_matches t fmt = true -> (match t with TU _ | TX _ | TI _ => True | _ => False end) ->
  gi_unpack (E := E) fuel (int_obj fmt v0) (PBytes data) w
  = match unpack_item t data with
    | Ok (Some v) => FRet (PTuple [PInt (Z.of_nat (width t)); int_obj fmt v]) w
    | Ok None => FRaise TypeError w
    | Raise e => FRaise e w
    end.
Proof.
  intros Hm Ht. unfold gi_unpack, int_obj. py_unfold. cbn.
  unfold fmt_matches in Hm. cbn [append] in Hm. destruct (fmt_of (String "<" fmt)) as [[sg wd]|] eqn:Hf; [|discriminate Hm].
  destruct t as [w'|w'|w'|n|n]; try contradiction; cbn [unpack_item width];
    apply andb_true_iff in Hm; destruct Hm as [Hs Hw]; apply Nat.eqb_eq in Hw; subst w';
    destruct sg; try discriminate Hs; cbn; rewrite Nat2Z.id; unfold py_struct_unpack; rewrite Hf;
    destruct (unpack_int _ _ _) as [z|e]; reflexivity.
Qed.

Theorem bridge_padding fuel n v data (w : W) :
  gp_pack (E := E) fuel (len_obj n v) w = lift_pack (len_obj n v) (pack_item (TPad n) v) w
  /\ gp_unpack (E := E) fuel (len_obj n v) (PBytes data) w
     = match unpack_item (TPad n) data with
       | Ok None => FRet (PTuple [PInt (Z.of_nat (width (TPad n))); len_obj n v]) w
       | _ => FRaise TypeError w
       end.
Proof.
  split; unfold gp_pack, gp_unpack, len_obj; py_unfold; cbn; rewrite ?Nat2Z.id; reflexivity.
Qed.

Lemma ltb_nat a b : (Z.of_nat a <? Z.of_nat b)%Z = Nat.ltb a b.
Proof. destruct (Nat.ltb a b) eqn:H; lia. Qed.

Theorem bridge_ch_pack fuel n v (w : W) :
  gh_pack (E := E) fuel (len_obj n v) w = lift_pack (len_obj n v) (pack_item (TCh n) v) w.
Proof.
  unfold gh_pack, len_obj. py_unfold. cbn.
  destruct v as [z|s]; cbn; [reflexivity|].
  rewrite ?ltb_nat.
  (* shorter than, as long as, or longer than the field - in whatever order the code tests it *)
  destruct (lt_eq_lt_dec (length s) n) as [[Hlt|Heq]|Hgt].
  - assert (H1 : Nat.ltb (length s) n = true) by lia. assert (H2 : Nat.ltb n (length s) = false) by lia.
    rewrite ?H1, ?H2. cbn. rewrite ?ltb_nat, ?H1, ?H2. cbn.
    replace (Z.to_nat (Z.of_nat n - Z.of_nat (length s))) with (n - length s)%nat by lia.
    rewrite ?Nat2Z.id.
    rewrite firstn_all2 by (rewrite app_length; unfold zeros; rewrite repeat_length; lia). reflexivity.
  - assert (H1 : Nat.ltb (length s) n = false) by lia. assert (H2 : Nat.ltb n (length s) = false) by lia.
    rewrite ?H1, ?H2. cbn. rewrite ?ltb_nat, ?H1, ?H2. cbn.
    rewrite ?Nat2Z.id.
    replace (n - length s)%nat with 0%nat by lia. change (zeros 0) with (@nil N). rewrite app_nil_r.
    rewrite firstn_all2 by lia. reflexivity.
  - assert (H1 : Nat.ltb (length s) n = false) by lia. assert (H2 : Nat.ltb n (length s) = true) by lia.
    rewrite ?H1, ?H2. cbn. rewrite ?ltb_nat, ?H1, ?H2. cbn. reflexivity.
Qed.

Theorem bridge_ch_unpack fuel n v0 data (w : W) :
  gh_unpack (E := E) fuel (len_obj n v0) (PBytes data) w
  = match unpack_item (TCh n) data with
    | Ok (Some v) => FRet (PTuple [PInt (Z.of_nat (width (TCh n))); len_obj n v]) w
    | Ok None => FRaise TypeError w
    | Raise e => FRaise e w
    end.
Proof.
  unfold gh_unpack, len_obj. py_unfold. cbn. rewrite ltb_nat.
  destruct (Nat.ltb (length data) n); cbn; [reflexivity|].
  rewrite Nat2Z.id.
  destruct (utf8_valid (firstn n data)); reflexivity.
Qed.
End Br.

Print Assumptions item_formats_right.
Print Assumptions bridge_item_pack.
Print Assumptions bridge_item_unpack.
Print Assumptions bridge_padding.
Print Assumptions bridge_ch_pack.
Print Assumptions bridge_ch_unpack.
