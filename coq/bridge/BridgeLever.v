(* Bridge lemma (Tie B for the lever-arm query, C17): UbxCfgEsfla.lever_arm of ubxlib/ubx_cfg_esfla.py, translated from the
   source on this run (LeverKernels.v, over PySem.v) = model/Helpers.v (lever_arm: the first block of the requested type or
   nothing), for every integer-valued field list that has a numConfigs field and every type. The search loop is proved once
   for ANY loop body and ANY code around the loop (a continuation K) that do per block what the specification says - so it
   does not matter whether the code collects the result in a local and breaks, or returns it from inside the loop. *)
From Coq Require Import String Lia ZifyBool.
From Ubx Require Import Fields Base Checksum Frame ParserUbx CfgKeys Request Helpers HelpersP PySem.
From UbxGen Require Import LeverKernels.
Open Scope Z_scope.

Definition fv (v : fval) : pyval := match v with VInt z => PInt z | VStr s => PText s end.
Definition fmap (fs : fields) : list (string * pyval) := map (fun x => (fst (fst x), fv (snd x))) fs.
(* a frame object: its fields by name, in layout order *)
Definition fobj (fs : fields) : pyval := PObj [("f"%string, PObj (fmap fs))].
(* every field holds an integer (true of a decoded CFG-GNSS frame: U1, X4 and padding fields only) *)
Definition intsb (fs : fields) : bool := forallb (fun x => match snd x with VInt _ => true | VStr _ => false end) fs.

Lemma fld_set_setf fs n z : attr_set_existing (fmap fs) n (PInt z) = fmap (setf fs n (VInt z)).
Proof.
  induction fs as [|[[k t] v] r IH]; [reflexivity|].
  cbn [fmap map fst snd attr_set_existing setf]. fold (fmap r).
  destruct (String.eqb k n); [reflexivity|]. cbn [map fst snd]. fold (fmap r). fold (fmap (setf r n (VInt z))).
  rewrite IH. reflexivity.
Qed.
Lemma attr_find_fmap fs n : attr_find (fmap fs) n = option_map fv (getf fs n).
Proof.
  induction fs as [|[[k t] v] r IH]; [reflexivity|].
  cbn [fmap map fst snd attr_find getf]. fold (fmap r). destruct (String.eqb k n); [reflexivity|exact IH].
Qed.
Lemma attr_get_fmap fs n : attr_get (fmap fs) n = match getf fs n with Some v => fv v | None => PNone end.
Proof.
  induction fs as [|[[k t] v] r IH]; [reflexivity|].
  cbn [fmap map fst snd attr_get getf]. fold (fmap r). destruct (String.eqb k n); [reflexivity|exact IH].
Qed.
Lemma ints_getf fs n v : intsb fs = true -> getf fs n = Some v -> exists z, v = VInt z.
Proof.
  induction fs as [|[[k t] x] r IH]; [discriminate 2|].
  cbn [intsb forallb snd getf]. intros Hi Hg. apply andb_prop in Hi. destruct Hi as [Hx Hr].
  destruct (String.eqb k n).
  - inversion Hg; subst x. destruct v as [z|s]; [exists z; reflexivity|discriminate Hx].
  - exact (IH Hr Hg).
Qed.
Lemma ints_setf fs n z : intsb fs = true -> intsb (setf fs n (VInt z)) = true.
Proof.
  induction fs as [|[[k t] x] r IH]; [reflexivity|].
  cbn [intsb forallb snd setf]. intros Hi. apply andb_prop in Hi. destruct Hi as [Hx Hr].
  destruct (String.eqb k n); cbn [intsb forallb snd]; fold (intsb r) in *; fold (intsb (setf r n (VInt z))).
  - exact Hr.
  - rewrite Hx. exact (IH Hr).
Qed.
Lemma fstr_fname base i :
  (base ++ "_" ++ dec i)%string = fname base i.
Proof. reflexivity. Qed.

Arguments attr_set_existing : simpl never. Arguments setf : simpl never. Arguments fmap : simpl never.
Arguments getf : simpl never.
Arguments Z.leb : simpl never. Arguments Z.ltb : simpl never. Arguments Z.eqb : simpl never.
Arguments Z.lor : simpl never. Arguments Z.land : simpl never. Arguments Z.lnot : simpl never.
Arguments Z.of_nat : simpl never. Arguments Z.to_nat : simpl never. Arguments dec : simpl never. Arguments fname : simpl never.
Arguments seq : simpl never. Arguments py_fstr : simpl never. Arguments append : simpl never. Arguments py_fld_item : simpl never.

Section Br.
Context {E : Type}.
Notation W := (world E).
Definition item_obj (v : pyval) : pyval := PObj [("value"%string, v)].
Definition items (i k : nat) : list pyval := map (fun j => PInt (Z.of_nat j)) (seq i k).

Definition dict3 (x y z : Z) : pyval := PDict [("x"%string, PInt x); ("y"%string, PInt y); ("z"%string, PInt z)].
Definition none_res (fs : fields) (w : W) : @fres E := FRet (PTuple [PNone; fobj fs]) w.
Definition some_res (fs : fields) (x y z : Z) (w : W) : @fres E := FRet (PTuple [dict3 x y z; fobj fs]) w.
Definition lift_arm (fs : fields) (r : res (option (Z * Z * Z))) (w : W) : @fres E :=
  match r with Ok None => none_res fs w | Ok (Some (x, y, z)) => some_res fs x y z w | Raise e => FRaise e w end.
Definition arm_at (fs : fields) (i : nat) : res (Z * Z * Z) :=
  let* x := get_int fs (fname "leverArmX" i) in let* y := get_int fs (fname "leverArmY" i) in
  let* z := get_int fs (fname "leverArmZ" i) in Ok (x, y, z).

Section Loop.
Context {L : Type}.
Variables (body : @stmt E L) (seti : L -> pyval -> L) (K : @ctl E L -> @fres E) (inv : L -> Prop) (fs : fields) (t : Z).
Hypothesis KR : forall v (w : W), K (CReturn v w) = FRet v w.
Hypothesis KE : forall e l (w : W), K (CRaise e l w) = FRaise e w.
Hypothesis Hints : intsb fs = true.
Hypothesis Hbody : forall l i (w : W), inv l -> K (CNormal l w) = none_res fs w ->
  match getf fs (fname "leverArmType" i) with
  | None => exists l', body (seti l (PInt (Z.of_nat i))) w = CRaise KeyError l' w
  | Some (VInt a) =>
      if a =? t then
        match arm_at fs i with
        | Ok (x, y, z) => (exists l', body (seti l (PInt (Z.of_nat i))) w = CBreak l' w /\ K (CNormal l' w) = some_res fs x y z w)
                          \/ body (seti l (PInt (Z.of_nat i))) w = CReturn (PTuple [dict3 x y z; fobj fs]) w
        | Raise e => exists l', body (seti l (PInt (Z.of_nat i))) w = CRaise e l' w
        end
      else exists l', (body (seti l (PInt (Z.of_nat i))) w = CNormal l' w \/ body (seti l (PInt (Z.of_nat i))) w = CContinue l' w)
                      /\ inv l' /\ K (CNormal l' w) = none_res fs w
  | Some (VStr _) => True
  end.
Lemma loop_lever k : forall i l (w : W), inv l -> K (CNormal l w) = none_res fs w ->
  K (s_for_items (items i k) seti body l w) = lift_arm fs (lever_from fs t i k) w.
Proof.
  induction k as [|k IH]; intros i l w Hl Hobs.
  - exact Hobs.
  - unfold items. change (seq i (S k)) with (i :: seq (S i) k). cbn [map s_for_items lever_from]. fold (items (S i) k).
    pose proof (Hbody l i w Hl Hobs) as Hb. unfold get_int at 1.
    destruct (getf fs (fname "leverArmType" i)) as [[a|s]|] eqn:Hg; cbn [bind].
    + destruct (a =? t) eqn:Hat.
      * assert (Hm : (let* x := get_int fs (fname "leverArmX" i) in let* y := get_int fs (fname "leverArmY" i) in
                      let* z := get_int fs (fname "leverArmZ" i) in Ok (Some (x, y, z)))
                     = match arm_at fs i with Ok v => Ok (Some v) | Raise e => Raise e end).
        { unfold arm_at. destruct (get_int fs (fname "leverArmX" i)); cbn [bind]; [|reflexivity].
          destruct (get_int fs (fname "leverArmY" i)); cbn [bind]; [|reflexivity].
          destruct (get_int fs (fname "leverArmZ" i)); reflexivity. }
        rewrite Hm. destruct (arm_at fs i) as [[[x y] z]|e].
        -- destruct Hb as [[l' [Hb Ho]]|Hb]; rewrite Hb; [exact Ho | apply KR].
        -- destruct Hb as [l' Hb]. rewrite Hb. apply KE.
      * destruct Hb as [l' [[Hb|Hb] [Hl' Ho]]]; rewrite Hb; exact (IH (S i) l' w Hl' Ho).
    + destruct (ints_getf fs _ _ Hints Hg) as [z Hz]. discriminate Hz.
    + destruct Hb as [l' Hb]. rewrite Hb. apply KE.
Qed.
End Loop.

Lemma fstr_nat base i : py_fstr base (PInt (Z.of_nat i)) = PStr (base ++ dec i).
Proof. unfold py_fstr. destruct (Z.of_nat i <? 0) eqn:H; [lia|]. rewrite Nat2Z.id. reflexivity. Qed.
Lemma range_items n : py_range (PInt n) = PList (items 0 (Z.to_nat n)).
Proof. reflexivity. Qed.
Lemma fld_item_fmap fs name :
  py_fld_item (PObj (fmap fs)) (PStr name) = match getf fs name with Some v => Ok (item_obj (fv v)) | None => Raise KeyError end.
Proof. unfold py_fld_item. rewrite attr_find_fmap. destruct (getf fs name); reflexivity. Qed.
Lemma fld_item_f fs name :
  py_fld_item (py_getattr (fobj fs) "f") (PStr name) = match getf fs name with Some v => Ok (item_obj (fv v)) | None => Raise KeyError end.
Proof. apply fld_item_fmap. Qed.
Lemma getattr_f fs name : py_getattr (py_getattr (fobj fs) "f") name = match getf fs name with Some v => fv v | None => PNone end.
Proof. unfold fobj. cbn [py_getattr attr_get String.eqb Ascii.eqb Bool.eqb]. apply attr_get_fmap. Qed.

Ltac py_unfold :=
  cbv beta iota zeta delta [s_seq s_call_assign s_call s_call_assign2 s_call_return s_if s_skip s_try s_return s_assign
    s_assert s_break s_continue s_update s_update_arg s_raise res_call find_handler].


Theorem bridge_lever_arm fuel fs t n (w : W) :
  intsb fs = true -> getf fs "numConfigs" = Some (VInt n) ->
  ghl_lever_arm (E := E) fuel (fobj fs) (PInt t) w = lift_arm fs (lever_arm fs t) w.
Proof.
  intros Hi Hn. unfold ghl_lever_arm, lever_arm, get_int. rewrite Hn. cbn [bind].
  match goal with |- context [s_for_list ?it ?seti ?body] => remember body as bd eqn:Hbd; remember seti as si eqn:Hsi end.
  py_unfold. cbn -[fobj items]. unfold s_for_list. cbn -[fobj items]. rewrite getattr_f, Hn. cbn [fv]. rewrite range_items.
  set (inv := fun l => hl_lever_arm__self l = fobj fs /\ hl_lever_arm__armType l = PInt t).
  match goal with |- ?lhs = ?rhs =>
    match lhs with context C [s_for_items ?its si bd ?l0 w] =>
      let K := constr:(fun c : @ctl E L_hl_lever_arm => ltac:(let tm := context C [c] in exact tm)) in
      change (K (s_for_items its si bd l0 w) = rhs);
      apply (loop_lever bd si K inv fs t)
    end
  end.
  - reflexivity.
  - reflexivity.
  - exact Hi.
  - intros l i w0 [Ha Hb] Hobs. destruct l. cbn in Ha, Hb. subst. unfold inv.
    Ltac lv_norm := repeat (progress (py_unfold; cbn -[fobj]; rewrite ?fstr_nat, ?fld_item_f)).
    destruct (getf fs (fname "leverArmType" i)) as [[a|s]|] eqn:Hg; [| exact I |].
    + change ("leverArmType_" ++ dec i)%string with (fname "leverArmType" i) in *.
      destruct (a =? t) eqn:Hat.
      * unfold arm_at, get_int.
        destruct (getf fs (fname "leverArmX" i)) as [[x|sx]|] eqn:Hx; cbn [bind];
          [| destruct (ints_getf fs _ _ Hi Hx) as [z0 Hz0]; discriminate Hz0 |].
        2:{ lv_norm. change ("leverArmType_" ++ dec i)%string with (fname "leverArmType" i). rewrite Hg. lv_norm. rewrite Hat. lv_norm.
            change ("leverArmX_" ++ dec i)%string with (fname "leverArmX" i). rewrite Hx. lv_norm. eexists. reflexivity. }
        destruct (getf fs (fname "leverArmY" i)) as [[y|sy]|] eqn:Hy; cbn [bind];
          [| destruct (ints_getf fs _ _ Hi Hy) as [z0 Hz0]; discriminate Hz0 |].
        2:{ lv_norm. change ("leverArmType_" ++ dec i)%string with (fname "leverArmType" i). rewrite Hg. lv_norm. rewrite Hat. lv_norm.
            change ("leverArmX_" ++ dec i)%string with (fname "leverArmX" i). rewrite Hx. lv_norm.
            change ("leverArmY_" ++ dec i)%string with (fname "leverArmY" i). rewrite Hy. lv_norm. eexists. reflexivity. }
        destruct (getf fs (fname "leverArmZ" i)) as [[z|sz]|] eqn:Hz; cbn [bind];
          [| destruct (ints_getf fs _ _ Hi Hz) as [z0 Hz0]; discriminate Hz0 |].
        2:{ lv_norm. change ("leverArmType_" ++ dec i)%string with (fname "leverArmType" i). rewrite Hg. lv_norm. rewrite Hat. lv_norm.
            change ("leverArmX_" ++ dec i)%string with (fname "leverArmX" i). rewrite Hx. lv_norm.
            change ("leverArmY_" ++ dec i)%string with (fname "leverArmY" i). rewrite Hy. lv_norm.
            change ("leverArmZ_" ++ dec i)%string with (fname "leverArmZ" i). rewrite Hz. lv_norm. eexists. reflexivity. }
        lv_norm. change ("leverArmType_" ++ dec i)%string with (fname "leverArmType" i). rewrite Hg. lv_norm. rewrite Hat. lv_norm.
        change ("leverArmX_" ++ dec i)%string with (fname "leverArmX" i). rewrite Hx. lv_norm.
        change ("leverArmY_" ++ dec i)%string with (fname "leverArmY" i). rewrite Hy. lv_norm.
        change ("leverArmZ_" ++ dec i)%string with (fname "leverArmZ" i). rewrite Hz. lv_norm.
        first [ left; eexists; split; reflexivity | right; reflexivity ].
      * lv_norm. change ("leverArmType_" ++ dec i)%string with (fname "leverArmType" i). rewrite Hg. lv_norm. rewrite Hat. lv_norm.
        eexists. split; [first [left; reflexivity | right; reflexivity]|]. split; [split; reflexivity | exact Hobs].
    + lv_norm. change ("leverArmType_" ++ dec i)%string with (fname "leverArmType" i). rewrite Hg. lv_norm. eexists. reflexivity.
  - split; reflexivity.
  - reflexivity.
Qed.

(* every decoded CFG-ESFLA frame meets the two hypotheses; with props/C17.v's lever_first the TRANSLATED query returns the
   first block of the requested type, or nothing, for every list of lever-arm blocks *)
Lemma esfla_ints ver l : intsb (esfla_fields ver l) = true.
Proof.
  unfold esfla_fields. cbn [app intsb forallb snd]. fold intsb. generalize 0%nat.
  induction l as [|a t IH]; intro i; [reflexivity|]. cbn [larms_fields larm_fields app intsb forallb snd]. fold intsb. apply IH.
Qed.
Theorem translated_lever_arm_refines_spec fuel ver l t (w : W) :
  ghl_lever_arm (E := E) fuel (fobj (esfla_fields ver l)) (PInt t) w
  = match spec_lever t l with
    | None => none_res (esfla_fields ver l) w
    | Some (x, y, z) => some_res (esfla_fields ver l) x y z w
    end.
Proof.
  rewrite (bridge_lever_arm fuel _ t (Z.of_nat (length l)) w (esfla_ints ver l) eq_refl).
  rewrite (lever_first ver l t). unfold lift_arm. destruct (spec_lever t l) as [[[x y] z]|]; reflexivity.
Qed.
End Br.

Print Assumptions bridge_lever_arm.
Print Assumptions translated_lever_arm_refines_spec.
