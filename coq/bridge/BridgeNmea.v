(* Bridge lemmas (Tie B for kernels): the definitions regenerated from the Python source on every run
   (UbxGen.Kernels) are extensionally equal to the hand models the theorems are about.
   Compiled on every run; a failure is a broken proof obligation. *)
From Coq Require Import Lia ZifyBool ZifyN ZifyNat.
From Ubx Require Import Fields Base Checksum ParserUbx ParserNmea ChecksumP.
From UbxGen Require Import Kernels.
#[local] Ltac Zify.zify_post_hook ::= Z.to_euclidean_division_equations.

(* ---- NMEA parser ---------------------------------------------------------------------- *)
Definition to_nmodel (g : gnmea) : nparser := mkN (gn_state g) (gn_chk g) (gn_xor g) (gn_rx g).

Lemma lookup_none t d : forallb (fun kv => fst kv <? 256) t = true -> 256 <= d -> g_lookup t d = None.
Proof.
  induction t as [|[k v] r IH]; intros H Hd; [reflexivity|].
  cbn [forallb fst] in H. apply andb_true_iff in H. destruct H as [Hk Hr].
  cbn [g_lookup]. destruct (N.eqb k d) eqn:E; [apply N.eqb_eq in E; lia | auto].
Qed.

Lemma to_bin_bytes : forallb (fun d => match g_to_bin d, to_bin d with
                                      | Some a, Some b => a =? b | None, None => true | _, _ => false end)
                             (map N.of_nat (seq 0 256)) = true.
Proof. vm_compute. reflexivity. Qed.

Theorem bridge_to_bin : forall d, g_to_bin d = to_bin d.
Proof.
  intros d. destruct (N.ltb d 256) eqn:E.
  - pose proof to_bin_bytes as H. rewrite forallb_forall in H.
    assert (Hin : In d (map N.of_nat (seq 0 256))).
    { apply in_map_iff. exists (N.to_nat d). split; [lia|]. apply in_seq. lia. }
    specialize (H d Hin).
    destruct (g_to_bin d), (to_bin d); try discriminate; [apply N.eqb_eq in H; subst|]; reflexivity.
  - unfold g_to_bin. rewrite lookup_none; [|vm_compute; reflexivity | lia].
    unfold to_bin. repeat match goal with |- context [if ?b then _ else _] => destruct b eqn:? end; try reflexivity; lia.
Qed.

Theorem bridge_nstep : forall g d, to_nmodel (gn_process_byte g d) = nstep (to_nmodel g) d.
Proof.
  intros [st0 chk x rx0] d.
  unfold gn_process_byte, nstep, DOLLAR, STAR, NL.
  destruct (N.eqb d 36) eqn:E36.
  - cbv [gn_reset set_gn_state set_gn_chk set_gn_xor set_gn_rx gn_state gn_chk gn_xor gn_rx to_nmodel nrx].
    reflexivity.
  - destruct st0;
      cbv [gn_state_wait_sync gn_state_data gn_state_checksum1 gn_state_checksum2 gn_state_lineend gn_reset nstate_eqb
           set_gn_state set_gn_chk set_gn_xor set_gn_rx gn_state gn_chk gn_xor gn_rx to_nmodel nst nchk nxor nrx];
      rewrite ?E36, ?bridge_to_bin;
      repeat match goal with
             | |- context [match to_bin ?d with _ => _ end] => destruct (to_bin d) eqn:?
             | |- context [if ?b then _ else _] => destruct b eqn:?
             end; try reflexivity; try (f_equal; lia); try lia.
Qed.

Theorem bridge_nprocess : forall data g, to_nmodel (gn_process g data) = nprocess (to_nmodel g) data.
Proof.
  induction data as [|d t IH]; intros g; [reflexivity|].
  unfold gn_process, nprocess in *. cbn [fold_left]. rewrite IH, bridge_nstep. reflexivity.
Qed.

Theorem bridge_nrestart : forall g, to_nmodel (gn_restart g) = nrestart (to_nmodel g).
Proof. intros [st0 chk x rx0]. reflexivity. Qed.

Print Assumptions bridge_nstep.
Print Assumptions bridge_nprocess.
Print Assumptions bridge_to_bin.
