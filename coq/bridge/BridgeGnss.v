(* Bridge lemmas (Tie B for the CFG-GNSS helpers, C17): UbxCfgGnss._find_entry / enable_gnss / disable_gnss of
   ubxlib/ubx_cfg_gnss.py (with X4_Flags.enable / disable), translated from the source on this run (GnssKernels.v, over PySem.v)
   = model/Helpers.v (find_entry, enable_gnss, disable_gnss), for every integer-valued field list that has a numConfigBlocks
   field, every system and every block order. *)
From Coq Require Import String Lia ZifyBool.
From Ubx Require Import Fields Base Checksum Frame ParserUbx CfgKeys Request Helpers HelpersP PySem.
From UbxGen Require Import GnssKernels.
Open Scope Z_scope.

Definition fv (v : fval) : pyval := match v with VInt z => PInt z | VStr s => PText s end.
Definition fmap (fs : fields) : list (string * pyval) := map (fun x => (fst (fst x), fv (snd x))) fs.
(* a frame object: its fields by name, in layout order *)
Definition fobj (fs : fields) : pyval := PObj [("f"%string, PObj (fmap fs))].
(* every field holds an integer (true of a decoded CFG-GNSS frame: U1, X4 and padding fields only) *)
Definition intsb (fs : fields) : bool := forallb (fun x => match snd x with VInt _ => true | VStr _ => false end) fs.

Lemma fld_set_setf fs n z : attr_set_existing (fmap fs) n (PInt z) = fmap (setf fs n (VInt z)).
Proof.
  induction fs as [|[[k t] v] r IH]; [reflexivity|].
  cbn [fmap map fst snd attr_set_existing setf]. fold (fmap r).
  destruct (String.eqb k n); [reflexivity|]. cbn [map fst snd]. fold (fmap r). fold (fmap (setf r n (VInt z))).
  rewrite IH. reflexivity.
Qed.
Lemma attr_find_fmap fs n : attr_find (fmap fs) n = option_map fv (getf fs n).
Proof.
  induction fs as [|[[k t] v] r IH]; [reflexivity|].
  cbn [fmap map fst snd attr_find getf]. fold (fmap r). destruct (String.eqb k n); [reflexivity|exact IH].
Qed.
Lemma attr_get_fmap fs n : attr_get (fmap fs) n = match getf fs n with Some v => fv v | None => PNone end.
Proof.
  induction fs as [|[[k t] v] r IH]; [reflexivity|].
  cbn [fmap map fst snd attr_get getf]. fold (fmap r). destruct (String.eqb k n); [reflexivity|exact IH].
Qed.
Lemma ints_getf fs n v : intsb fs = true -> getf fs n = Some v -> exists z, v = VInt z.
Proof.
  induction fs as [|[[k t] x] r IH]; [discriminate 2|].
  cbn [intsb forallb snd getf]. intros Hi Hg. apply andb_prop in Hi. destruct Hi as [Hx Hr].
  destruct (String.eqb k n).
  - inversion Hg; subst x. destruct v as [z|s]; [exists z; reflexivity|discriminate Hx].
  - exact (IH Hr Hg).
Qed.
Lemma ints_setf fs n z : intsb fs = true -> intsb (setf fs n (VInt z)) = true.
Proof.
  induction fs as [|[[k t] x] r IH]; [reflexivity|].
  cbn [intsb forallb snd setf]. intros Hi. apply andb_prop in Hi. destruct Hi as [Hx Hr].
  destruct (String.eqb k n); cbn [intsb forallb snd]; fold (intsb r) in *; fold (intsb (setf r n (VInt z))).
  - exact Hr.
  - rewrite Hx. exact (IH Hr).
Qed.
Lemma fstr_fname base i :
  (base ++ "_" ++ dec i)%string = fname base i.
Proof. reflexivity. Qed.

Arguments attr_set_existing : simpl never. Arguments setf : simpl never. Arguments fmap : simpl never.
Arguments getf : simpl never.
Arguments Z.leb : simpl never. Arguments Z.ltb : simpl never. Arguments Z.eqb : simpl never.
Arguments Z.lor : simpl never. Arguments Z.land : simpl never. Arguments Z.lnot : simpl never.
Arguments Z.of_nat : simpl never. Arguments Z.to_nat : simpl never. Arguments dec : simpl never. Arguments fname : simpl never.
Arguments seq : simpl never. Arguments py_fstr : simpl never. Arguments append : simpl never. Arguments py_fld_item : simpl never.

Section Br.
Context {E : Type}.
Notation W := (world E).
Definition ret_f (fs : fields) (w : W) : @fres E := FRet (PTuple [PNone; fobj fs]) w.
Definition lift_f (r : res fields) (w : W) : @fres E := match r with Ok fs => ret_f fs w | Raise e => FRaise e w end.
Definition lift_pos (fs : fields) (r : res (option nat)) (w : W) : @fres E :=
  match r with
  | Ok None => FRet (PTuple [PNone; fobj fs]) w
  | Ok (Some i) => FRet (PTuple [PInt (Z.of_nat i); fobj fs]) w
  | Raise e => FRaise e w
  end.

(* the enable bit of a CFG-GNSS flags item *)
Definition item_obj (v : pyval) : pyval := PObj [("value"%string, v)].
Lemma bridge_flags fuel v (w : W) :
  ghf_enable (E := E) fuel (item_obj (PInt v)) w = FRet (PTuple [PNone; item_obj (PInt (Z.lor v 1))]) w
  /\ ghf_disable (E := E) fuel (item_obj (PInt v)) w = FRet (PTuple [PNone; item_obj (PInt (Z.land v (-2)))]) w.
Proof. unfold ghf_enable, ghf_disable, item_obj. split; reflexivity. Qed.


(* the search loop, for ANY loop body that does per block what the specification says (robust to how the body is written) *)
Section Loop.
Context {L : Type}.
Variables (body : @stmt E L) (seti : L -> pyval -> L) (inv : L -> Prop) (fs : fields) (sys : Z).
Definition items (i k : nat) : list pyval := map (fun j => PInt (Z.of_nat j)) (seq i k).
Hypothesis Hints : intsb fs = true.
Hypothesis Hbody : forall l i (w : W), inv l ->
  match getf fs (fname "gnssId" i) with
  | None => exists l', body (seti l (PInt (Z.of_nat i))) w = CRaise KeyError l' w
  | Some (VInt g) => if g =? sys then body (seti l (PInt (Z.of_nat i))) w = CReturn (PTuple [PInt (Z.of_nat i); fobj fs]) w
                     else exists l', (body (seti l (PInt (Z.of_nat i))) w = CNormal l' w \/ body (seti l (PInt (Z.of_nat i))) w = CContinue l' w) /\ inv l'
  | Some (VStr _) => True
  end.
Lemma loop_find k : forall i l (w : W), inv l ->
  (exists l', s_for_items (items i k) seti body l w = CNormal l' w /\ inv l' /\ find_from fs sys i k = Ok None)
  \/ (exists j, s_for_items (items i k) seti body l w = CReturn (PTuple [PInt (Z.of_nat j); fobj fs]) w /\ find_from fs sys i k = Ok (Some j))
  \/ (exists l' e, s_for_items (items i k) seti body l w = CRaise e l' w /\ find_from fs sys i k = Raise e).
Proof.
  induction k as [|k IH]; intros i l w Hl.
  - left. exists l. repeat split; [exact Hl].
  - unfold items. change (seq i (S k)) with (i :: seq (S i) k). cbn [map s_for_items find_from]. fold (items (S i) k).
    pose proof (Hbody l i w Hl) as Hb. unfold get_int.
    destruct (getf fs (fname "gnssId" i)) as [[g|s]|] eqn:Hg.
    + destruct (g =? sys) eqn:Hgs; cbn [bind].
      * right. left. exists i. rewrite Hb, Hgs. split; reflexivity.
      * destruct Hb as [l' [[Hb|Hb] Hl']]; rewrite Hb, Hgs; exact (IH (S i) l' w Hl').
    + destruct (ints_getf fs _ _ Hints Hg) as [z Hz]. discriminate Hz.
    + destruct Hb as [l' Hb]. right. right. exists l', KeyError. rewrite Hb. split; reflexivity.
Qed.
End Loop.

Lemma fstr_nat base i : py_fstr base (PInt (Z.of_nat i)) = PStr (base ++ dec i).
Proof. unfold py_fstr. destruct (Z.of_nat i <? 0) eqn:H; [lia|]. rewrite Nat2Z.id. reflexivity. Qed.
Lemma range_items n : py_range (PInt n) = PList (items 0 (Z.to_nat n)).
Proof. reflexivity. Qed.
Lemma fld_item_fmap fs name :
  py_fld_item (PObj (fmap fs)) (PStr name) = match getf fs name with Some v => Ok (item_obj (fv v)) | None => Raise KeyError end.
Proof. unfold py_fld_item. rewrite attr_find_fmap. destruct (getf fs name); reflexivity. Qed.
Lemma fld_item_f fs name :
  py_fld_item (py_getattr (fobj fs) "f") (PStr name) = match getf fs name with Some v => Ok (item_obj (fv v)) | None => Raise KeyError end.
Proof. apply fld_item_fmap. Qed.
Lemma getattr_f fs name : py_getattr (py_getattr (fobj fs) "f") name = match getf fs name with Some v => fv v | None => PNone end.
Proof. unfold fobj. cbn [py_getattr attr_get String.eqb Ascii.eqb Bool.eqb]. apply attr_get_fmap. Qed.

Ltac py_unfold :=
  cbv beta iota zeta delta [s_seq s_call_assign s_call s_call_assign2 s_call_return s_if s_skip s_try s_return s_assign
    s_assert s_break s_continue s_update s_update_arg s_raise res_call find_handler].

Theorem bridge_find_entry fuel fs sys n (w : W) :
  intsb fs = true -> getf fs "numConfigBlocks" = Some (VInt n) ->
  ghg_find_entry (E := E) fuel (fobj fs) (PInt sys) w = lift_pos fs (find_entry fs sys) w.
Proof.
  intros Hi Hn. unfold ghg_find_entry, find_entry, get_int. rewrite Hn. cbn [bind].
  (* independent of the names and number of the method's locals and of what surrounds the loop *)
  match goal with |- context [s_for_list ?it ?seti ?body] => remember body as bd eqn:Hbd; remember seti as si eqn:Hsi end.
  py_unfold. cbn -[fobj items].
  destruct ((0 <=? sys) && (sys <=? 7)) eqn:Hr; cbn -[fobj items]; [|reflexivity].
  unfold s_for_list. cbn -[fobj items]. rewrite getattr_f, Hn. cbn [fv]. rewrite range_items.
  set (inv := fun l => hg_find_entry__self l = fobj fs /\ hg_find_entry__system l = PInt sys).
  assert (Hbody : forall l i (w : W), inv l ->
    match getf fs (fname "gnssId" i) with
    | None => exists l', bd (si l (PInt (Z.of_nat i))) w = CRaise KeyError l' w
    | Some (VInt g) => if g =? sys then bd (si l (PInt (Z.of_nat i))) w = CReturn (PTuple [PInt (Z.of_nat i); fobj fs]) w
                       else exists l', (bd (si l (PInt (Z.of_nat i))) w = CNormal l' w \/ bd (si l (PInt (Z.of_nat i))) w = CContinue l' w) /\ inv l'
    | Some (VStr _) => True
    end).
  { intros l i w0 [Ha Hb]. destruct l. cbn in Ha, Hb. subst. unfold inv.
    destruct (getf fs (fname "gnssId" i)) as [[g|s]|] eqn:Hg; [| exact I |].
    - destruct (g =? sys) eqn:Hgs.
      + py_unfold. cbn -[fobj]. rewrite fstr_nat. change ("gnssId_" ++ dec i)%string with (fname "gnssId" i).
        rewrite fld_item_f, Hg. cbn -[fobj]. rewrite Hgs. reflexivity.
      + py_unfold. cbn -[fobj]. rewrite fstr_nat. change ("gnssId_" ++ dec i)%string with (fname "gnssId" i).
        rewrite fld_item_f, Hg. cbn -[fobj]. rewrite Hgs. eexists. split; [first [left; reflexivity | right; reflexivity]|]. split; reflexivity.
    - py_unfold. cbn -[fobj]. rewrite fstr_nat. change ("gnssId_" ++ dec i)%string with (fname "gnssId" i).
      rewrite fld_item_f, Hg. cbn -[fobj]. eexists. reflexivity. }
  match goal with |- context [s_for_items _ _ _ ?l0 _] =>
    destruct (loop_find bd si inv fs sys Hi Hbody (Z.to_nat n) 0%nat l0 w (conj eq_refl eq_refl))
      as [[l' [H1 [[H2 _] H3]]] | [[j [H1 H3]] | [l' [e [H1 H3]]]]]; rewrite H1, H3; cbn -[fobj]
  end.
  - rewrite ?H2. reflexivity.
  - reflexivity.
  - reflexivity.
Qed.

Arguments ghg_find_entry : simpl never. Arguments ghf_enable : simpl never. Arguments ghf_disable : simpl never.

Lemma set_back fs name z :
  py_setattr (fobj fs) "f" (py_fld_set (py_getattr (fobj fs) "f") name (PInt z)) = fobj (setf fs name (VInt z)).
Proof.
  unfold fobj. cbn [py_getattr attr_get py_setattr attr_set String.eqb Ascii.eqb Bool.eqb py_fld_set].
  rewrite fld_set_setf. reflexivity.
Qed.

Ltac enable_tac flag_of :=
  let Hi := fresh "Hi" in let Hn := fresh "Hn" in let Hr := fresh "Hr" in let Hg := fresh "Hg" in
  intros Hi Hn; unfold ghg_enable_gnss, ghg_disable_gnss, enable_gnss, disable_gnss, set_enable_bit; py_unfold;
  cbn [hg_enable_gnss__system hg_enable_gnss__self hg_disable_gnss__system hg_disable_gnss__self py_le];
  match goal with |- context [(0 <=? ?s) && (?s <=? 7)] => destruct ((0 <=? s) && (s <=? 7)) eqn:Hr end;
  [| unfold find_entry; rewrite Hr; reflexivity];
  cbn -[fobj]; rewrite (bridge_find_entry _ _ _ _ _ Hi Hn);
  match goal with |- context [find_entry ?fs ?s] => destruct (find_entry fs s) as [[?i|]|?e] end; cbn -[fobj]; try reflexivity;
  rewrite fstr_nat;
  match goal with |- context [(?b ++ dec ?i)%string] => change (b ++ dec i)%string with (fname "flags" i) end;
  rewrite !fld_item_f; unfold get_int;
  match goal with |- context [getf ?fs ?nm] => destruct (getf fs nm) as [[?v|?s]|] eqn:Hg end;
  [ cbn [fv]; match goal with |- context [item_obj (PInt ?v)] => rewrite (flag_of v) end; cbn -[fobj]; cbn [py_fld_set_v]; rewrite set_back; reflexivity
  | destruct (ints_getf _ _ _ Hi Hg) as [?z ?Hz]; discriminate
  | reflexivity ].

Theorem bridge_enable_gnss fuel fs sys n (w : W) :
  intsb fs = true -> getf fs "numConfigBlocks" = Some (VInt n) ->
  ghg_enable_gnss (E := E) fuel (fobj fs) (PInt sys) w = lift_f (enable_gnss fs sys) w.
Proof. enable_tac (fun v => proj1 (bridge_flags fuel v w)). Qed.

Theorem bridge_disable_gnss fuel fs sys n (w : W) :
  intsb fs = true -> getf fs "numConfigBlocks" = Some (VInt n) ->
  ghg_disable_gnss (E := E) fuel (fobj fs) (PInt sys) w = lift_f (disable_gnss fs sys) w.
Proof. enable_tac (fun v => proj2 (bridge_flags fuel v w)). Qed.

(* the hypotheses survive a step (the flags field is not the block counter), so the helpers compose *)
Lemma step_ok on fs sys n fs' :
  intsb fs = true -> getf fs "numConfigBlocks" = Some (VInt n) -> set_enable_bit on fs sys = Ok fs' ->
  intsb fs' = true /\ getf fs' "numConfigBlocks" = Some (VInt n).
Proof.
  intros Hi Hn H. unfold set_enable_bit in H. destruct (find_entry fs sys) as [[i|]|e]; cbn [bind] in H; [| inversion H; subst; auto | discriminate H].
  destruct (get_int fs (fname "flags" i)) as [v|e]; cbn [bind] in H; [|discriminate H]. inversion H; subst fs'. split.
  - apply ints_setf. exact Hi.
  - rewrite getf_setf_other; [exact Hn|]. cbv [fname append]. discriminate.
Qed.

Arguments ghg_enable_gnss : simpl never. Arguments ghg_disable_gnss : simpl never.

Ltac preset_step :=
  match goal with
  | Hi : intsb ?fs = true, Hn : getf ?fs "numConfigBlocks" = Some (VInt ?n) |- context [ghg_enable_gnss ?fuel (fobj ?fs) (PInt ?s) ?w] =>
      rewrite (bridge_enable_gnss fuel fs s n w Hi Hn);
      let He := fresh "He" in let fs' := fresh "fs" in
      destruct (enable_gnss fs s) as [fs'|?e] eqn:He; cbn -[fobj]; [| reflexivity];
      let Hx := fresh "Hx" in pose proof (step_ok true _ _ _ _ Hi Hn He) as Hx; destruct Hx as [?Hi ?Hn]; clear Hi Hn He
  | Hi : intsb ?fs = true, Hn : getf ?fs "numConfigBlocks" = Some (VInt ?n) |- context [ghg_disable_gnss ?fuel (fobj ?fs) (PInt ?s) ?w] =>
      rewrite (bridge_disable_gnss fuel fs s n w Hi Hn);
      let He := fresh "He" in let fs' := fresh "fs" in
      destruct (disable_gnss fs s) as [fs'|?e] eqn:He; cbn -[fobj]; [| reflexivity];
      let Hx := fresh "Hx" in pose proof (step_ok false _ _ _ _ Hi Hn He) as Hx; destruct Hx as [?Hi ?Hn]; clear Hi Hn He
  end.

Theorem bridge_presets fuel fs n (w : W) :
  intsb fs = true -> getf fs "numConfigBlocks" = Some (VInt n) ->
  ghg_gps_glonass (E := E) fuel (fobj fs) w = lift_f (gps_glonass fs) w
  /\ ghg_gps_galileo_beidou (E := E) fuel (fobj fs) w = lift_f (gps_galileo_beidou fs) w.
Proof.
  intros Hi Hn. split.
  - unfold ghg_gps_glonass, gps_glonass, apply_all, GPS, SBAS, Galileo, BeiDou, IMES, QZSS, GLONASS. py_unfold.
    cbn -[fobj]. repeat preset_step. reflexivity.
  - unfold ghg_gps_galileo_beidou, gps_galileo_beidou, apply_all, GPS, SBAS, Galileo, BeiDou, IMES, QZSS, GLONASS. py_unfold.
    cbn -[fobj]. repeat preset_step. reflexivity.
Qed.

(* every decoded CFG-GNSS frame meets the two hypotheses, so - with props/C17.v's refinement theorem - the TRANSLATED methods
   refine the block-list specification for every block list, order and flag word *)
Lemma gnss_ints ver hw use_ bs : intsb (gnss_fields ver hw use_ bs) = true.
Proof.
  unfold gnss_fields. cbn [app intsb forallb snd]. fold intsb. generalize 0%nat.
  induction bs as [|b t IH]; intro i; [reflexivity|]. cbn [gblocks_fields gblock_fields app intsb forallb snd]. fold intsb. apply IH.
Qed.
Lemma gnss_count ver hw use_ bs : getf (gnss_fields ver hw use_ bs) "numConfigBlocks" = Some (VInt (Z.of_nat (length bs))).
Proof. reflexivity. Qed.

Theorem translated_enable_refines_spec fuel ver hw use_ bs sys (w : W) :
  (0 <= sys <= 7) ->
  ghg_enable_gnss (E := E) fuel (fobj (gnss_fields ver hw use_ bs)) (PInt sys) w = ret_f (gnss_fields ver hw use_ (spec_enable true sys bs)) w
  /\ ghg_disable_gnss (E := E) fuel (fobj (gnss_fields ver hw use_ bs)) (PInt sys) w = ret_f (gnss_fields ver hw use_ (spec_enable false sys bs)) w.
Proof.
  intros Hs. split.
  - rewrite (bridge_enable_gnss fuel _ sys _ w (gnss_ints ver hw use_ bs) (gnss_count ver hw use_ bs)).
    unfold enable_gnss. rewrite (enable_refines true ver hw use_ bs sys Hs). reflexivity.
  - rewrite (bridge_disable_gnss fuel _ sys _ w (gnss_ints ver hw use_ bs) (gnss_count ver hw use_ bs)).
    unfold disable_gnss. rewrite (enable_refines false ver hw use_ bs sys Hs). reflexivity.
Qed.

Example bridge_gnss_nonvacuous :
  intsb (gnss_fields 0 32 32 [mkG 6 8 14 65536; mkG 0 8 16 16842752; mkG 0 1 1 0]) = true
  /\ enable_gnss (gnss_fields 0 32 32 [mkG 6 8 14 65536; mkG 0 8 16 16842752; mkG 0 1 1 0]) 0
     = Ok (gnss_fields 0 32 32 [mkG 6 8 14 65536; mkG 0 8 16 16842753; mkG 0 1 1 0]).
Proof. split; vm_compute; reflexivity. Qed.

End Br.

Print Assumptions translated_enable_refines_spec.
Print Assumptions bridge_presets.
Print Assumptions bridge_find_entry.
Print Assumptions bridge_enable_gnss.
Print Assumptions bridge_disable_gnss.
