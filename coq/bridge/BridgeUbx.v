(* Bridge lemmas (Tie B for kernels): the definitions regenerated from the Python source on every run
   (UbxGen.Kernels) are extensionally equal to the hand models the theorems are about.
   Compiled on every run; a failure is a broken proof obligation. *)
From Coq Require Import Lia ZifyBool ZifyN ZifyNat.
From Ubx Require Import Fields Base Checksum ParserUbx ParserNmea ChecksumP.
From UbxGen Require Import Kernels BridgeCk.
#[local] Ltac Zify.zify_post_hook ::= Z.to_euclidean_division_equations.

(* ---- UBX parser ---------------------------------------------------------------------- *)
Definition to_model (g : gparser) : parser :=
  mkParser (gp_state g)
           (mkRegs (gp_cls g) (gp_id g) (gp_len g) (gp_data g) (gp_cka g) (gp_ckb g) (gp_ofs g) (ck_of (gp_ck g)))
           (gp_queue g) (gp_rx g) (gp_filt g).

Ltac split_ifs :=
  repeat match goal with
         | |- context [if ?b then _ else _] => destruct b eqn:?
         end.

Theorem bridge_step : forall g d, to_model (g_process_byte g d) = step (to_model g) d.
Proof.
  intros [st0 c i l dat ka kb o [a b] q rx0 f] d.
  destruct st0;
    cbv [g_process_byte g_state_init g_state_sync g_state_class g_state_id g_state_len1 g_state_len2 g_state_data
         g_state_crc1 g_state_crc2 g_reset g_ck_add g_ck_reset g_ck_matches
         state_eqb set_gp_state set_gp_cls set_gp_id set_gp_len set_gp_data set_gp_cka set_gp_ckb set_gp_ofs set_gp_ck
         set_gp_queue set_gp_rx set_gp_filt set_g_cka set_g_ckb
         gp_state gp_cls gp_id gp_len gp_data gp_cka gp_ckb gp_ofs gp_ck gp_queue gp_rx gp_filt g_cka g_ckb
         to_model ck_of step with_st with_rg st rg queue rx filt mcls mid mlen mdata mcka mckb ofs cks regs0
         ck_add ck_reset ck_matches MAX_MESSAGE_LENGTH fst snd];
    split_ifs; try reflexivity; try (norm_mask; f_equal; f_equal; lia); try lia; try (exfalso; lia).
Qed.

Theorem bridge_process : forall data g, to_model (g_process g data) = process (to_model g) data.
Proof.
  induction data as [|d t IH]; intros g; [reflexivity|].
  unfold g_process, process in *. cbn [fold_left]. rewrite IH, bridge_step. reflexivity.
Qed.

Theorem bridge_restart : forall g, to_model (g_restart g) = restart (to_model g).
Proof. intros [st0 c i l dat ka kb o [a b] q rx0 f]. reflexivity. Qed.

Theorem bridge_empty_queue : forall g, to_model (g_empty_queue g) = empty_queue (to_model g).
Proof. intros [st0 c i l dat ka kb o [a b] q rx0 f]. reflexivity. Qed.

Print Assumptions bridge_step.
Print Assumptions bridge_process.
