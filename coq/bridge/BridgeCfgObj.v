(* Bridge lemmas (Tie B for the configuration item codec): CfgKeyData.pack / unpack (with _pack_keyid, _pack_value,
   _unpack_value) of ubxlib/cfgkeys.py translated from the source on this run (CfgKernels.v, over PySem.v) = the hand model
   CfgKeys.v (pack_item_cfg, unpack_item_cfg), for every item, every byte string and every signedness table. *)
From Coq Require Import String Lia ZifyBool ZifyN ZifyNat.
From Ubx Require Import Fields Base Checksum Frame ParserUbx CfgKeys CfgKeysSpec Request PySem FieldsP CfgKeysP.
From UbxGen Require Import CfgKernels.
Open Scope N_scope.

Definition cv (v : cval) : pyval := match v with CInt z => PInt z | CBool b => PBool b | CNone => PNone end.
(* a CfgKeyData object: the attributes its codec reads and writes *)
Definition obj_of (it : item) : pyval :=
  PObj [("group_id"%string, PInt (it_group it)); ("item_id"%string, PInt (it_item it)); ("bits"%string, PInt (it_bits it));
        ("signed"%string, PBool (it_signed it)); ("value"%string, cv (it_value it))].

Lemma header_lt g i b h : build_header g i b = Ok h -> (0 <= g <= 255)%Z -> (0 <= i <= 4095)%Z -> h < 4294967296.
Proof.
  intros H Hg Hi. destruct (valid_bits b) eqn:Hv.
  - rewrite (build_header_ok b g i Hv Hg Hi) in H. inversion H; subst h.
    pose proof (key_id_lt b g i Hv Hg Hi). lia.
  - unfold build_header in H. unfold valid_bits in Hv. unfold size_from_bits in H.
    destruct (b =? 1)%Z; [discriminate Hv|]. destruct (b =? 8)%Z; [discriminate Hv|].
    destruct (b =? 16)%Z; [discriminate Hv|]. destruct (b =? 32)%Z; [discriminate Hv|].
    destruct (b =? 64)%Z; [discriminate Hv|]. discriminate H.
Qed.

Lemma pack_header h : h < 4294967296 -> pack_int false 4 (VInt (Z.of_N h)) = Ok (le_enc 4 h).
Proof.
  intros Hh. rewrite pack_int_unsigned by (rewrite pow256_4; lia). rewrite N2Z.id. reflexivity.
Qed.

Ltac py_unfold :=
  cbv beta iota zeta delta [s_seq s_call_assign s_call s_call_assign2 s_call_return s_if s_skip s_try s_return s_assign
    s_assert s_break s_continue s_update s_update_arg s_raise res_call find_handler].

Arguments pack_int : simpl never. Arguments unpack_int : simpl never. Arguments build_header : simpl never.
Arguments le_enc : simpl never. Arguments le_dec : simpl never. Arguments bits_from_key : simpl never.
Arguments group_from_key : simpl never. Arguments item_from_key : simpl never. Arguments sign_of : simpl never.
Arguments Z.ltb : simpl never. Arguments Z.eqb : simpl never. Arguments Z.of_N : simpl never. Arguments Z.to_N : simpl never.
Arguments Z.of_nat : simpl never. Arguments Z.to_nat : simpl never. Arguments firstn : simpl never. Arguments skipn : simpl never.
Arguments Z.add : simpl never.

Section Br.
Context {E : Type} (B : backend E) (sk : list N).
Notation W := (world E).

Definition lift_bytes (self : pyval) (r : res bytes) (w : W) : @fres E :=
  match r with Ok b => FRet (PTuple [PBytes b; self]) w | Raise e => FRaise e w end.

Lemma bridge_pack_keyid fuel it (w : W) :
  (0 <= it_group it <= 255)%Z -> (0 <= it_item it <= 4095)%Z ->
  gc_pack_keyid (E := E) fuel (obj_of it) w
  = lift_bytes (obj_of it) (let* h := build_header (it_group it) (it_item it) (it_bits it) in Ok (le_enc 4 h)) w.
Proof.
  intros Hg Hi. unfold gc_pack_keyid, obj_of. py_unfold. cbn.
  destruct (build_header (it_group it) (it_item it) (it_bits it)) as [h|e] eqn:Hh; cbn; [|reflexivity].
  rewrite (pack_header h (header_lt _ _ _ _ Hh Hg Hi)). reflexivity.
Qed.

Lemma bridge_pack_value fuel it (w : W) :
  gc_pack_value (E := E) fuel (obj_of it) w = lift_bytes (obj_of it) (pack_value it) w.
Proof.
  unfold gc_pack_value, obj_of, pack_value. py_unfold. cbn.
  destruct (it_bits it =? 1)%Z eqn:E1.
  { destruct (it_value it) as [z|b|]; cbn; [destruct (z =? 0)%Z|destruct b|]; reflexivity. }
  unfold bytes_from_bits. rewrite E1.
  Ltac val_cases it := destruct (it_signed it); destruct (it_value it) as [z|b|]; cbn; try reflexivity;
    try (destruct (pack_int _ _ _); reflexivity).
  destruct (it_bits it =? 8)%Z eqn:E8; [val_cases it|].
  destruct (it_bits it =? 16)%Z eqn:E16; [val_cases it|].
  destruct (it_bits it =? 32)%Z eqn:E32; [val_cases it|].
  destruct (it_bits it =? 64)%Z eqn:E64; [val_cases it|].
  reflexivity.
Qed.

Theorem bridge_pack fuel it (w : W) :
  gc_pack (E := E) fuel (obj_of it) w = lift_bytes (obj_of it) (pack_item_cfg it) w.
Proof.
  unfold gc_pack, pack_item_cfg. py_unfold. cbn [cpack__self py_getattr obj_of attr_get String.eqb Ascii.eqb Bool.eqb py_lt].
  change (py_getattr (obj_of it) "group_id") with (PInt (it_group it)).
  change (py_getattr (obj_of it) "item_id") with (PInt (it_item it)).
  cbn [py_lt orb].
  destruct ((it_group it <? 0)%Z || (255 <? it_group it)%Z) eqn:Hg; [reflexivity|].
  cbn.
  destruct ((it_item it <? 0)%Z || (4095 <? it_item it)%Z) eqn:Hi; [reflexivity|].
  cbn.
  rewrite bridge_pack_keyid by lia.
  destruct (build_header (it_group it) (it_item it) (it_bits it)) as [h|e] eqn:Hh; cbn.
  - rewrite bridge_pack_value.
    destruct (pack_value it) as [v|e] eqn:Hv; cbn; [reflexivity|].
    destruct e; reflexivity.
  - rewrite (build_header_raise _ _ _ _ Hh). reflexivity.
Qed.

Definition lift_unpack (r : res (item * nat)) (w : W) : @fres E :=
  match r with Ok (it, n) => FRet (PTuple [PInt (Z.of_nat n); obj_of it]) w | Raise e => FRaise e w end.

Lemma bridge_unpack_value fuel g i b s v0 d (w : W) :
  gc_unpack_value (E := E) fuel (obj_of (mkItem g i b s v0)) (PBytes d) w
  = match unpack_value b s d with
    | Ok (v, n) => FRet (PTuple [PInt (Z.of_nat n); obj_of (mkItem g i b s v)]) w
    | Raise e => FRaise e w
    end.
Proof.
  unfold gc_unpack_value, obj_of, unpack_value. py_unfold. cbn.
  unfold bytes_from_bits.
  Ltac use_eqs := repeat match goal with H : (_ =? _)%Z = _ |- _ => rewrite !H end.
  destruct (b =? 1)%Z eqn:E1.
  { cbn. use_eqs. cbn. rewrite ?Nat2Z.id.
    destruct (unpack_int false 1 (firstn 1 d)) as [z|e]; cbn; [|reflexivity].
    destruct (z =? 0)%Z; cbn; [reflexivity|]. destruct (z =? 1)%Z; reflexivity. }
  Ltac uv_case s := cbn; use_eqs; cbn; rewrite ?Nat2Z.id; destruct s; cbn;
    (match goal with |- context [unpack_int ?sg ?w ?x] => destruct (unpack_int sg w x) as [z|e] end); reflexivity.
  destruct (b =? 8)%Z eqn:E8; [uv_case s|].
  destruct (b =? 16)%Z eqn:E16; [uv_case s|].
  destruct (b =? 32)%Z eqn:E32; [uv_case s|].
  destruct (b =? 64)%Z eqn:E64; [uv_case s|].
  cbn. use_eqs. reflexivity.
Qed.

Lemma len_lt4 (d : bytes) : (Z.of_nat (length d) <? 4)%Z = Nat.ltb (length d) 4.
Proof. destruct (Nat.ltb (length d) 4) eqn:H; lia. Qed.

Theorem bridge_unpack fuel it0 data (w : W) :
  gc_unpack (E := E) sk fuel (obj_of it0) (PBytes data) w = lift_unpack (unpack_item_cfg sk data) w.
Proof.
  unfold gc_unpack, unpack_item_cfg. py_unfold. cbn [cunpack__data py_len py_lt].
  rewrite len_lt4.
  destruct (Nat.ltb (length data) 4) eqn:Hlen; [reflexivity|].
  cbn. change (Z.to_nat 4) with 4%nat.
  rewrite (unpack_int_spec false 4 (firstn 4 data)) by (rewrite firstn_length; lia).
  cbn. rewrite !N2Z.id.
  set (k := le_dec (firstn 4 data)).
  destruct it0 as [g0 i0 b0 s0 v0]. cbn.
  change (Z.to_nat 4) with 4%nat.
  match goal with |- context [gc_unpack_value fuel ?o _ w] =>
    change o with (obj_of (mkItem (group_from_key k) (item_from_key k) (bits_from_key k) (sign_of sk k) v0)) end.
  rewrite (bridge_unpack_value fuel (group_from_key k) (item_from_key k) (bits_from_key k) (sign_of sk k) v0 (skipn 4 data) w).
  destruct (unpack_value (bits_from_key k) (sign_of sk k) (skipn 4 data)) as [[v n]|e]; cbn.
  - replace (4 + Z.of_nat n)%Z with (Z.of_nat (4 + n)) by lia. reflexivity.
  - destruct e; reflexivity.
Qed.
End Br.

Print Assumptions bridge_pack.
Print Assumptions bridge_unpack.
