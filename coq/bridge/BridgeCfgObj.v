(* Bridge lemmas (Tie B for the configuration item codec): CfgKeyData.pack / unpack (with _pack_keyid, _pack_value,
   _unpack_value) of ubxlib/cfgkeys.py translated from the source on this run (CfgKernels.v, over PySem.v) = the hand model
   CfgKeys.v (pack_item_cfg, unpack_item_cfg), for every item, every byte string and every signedness table. *)
From Coq Require Import String Lia ZifyBool ZifyN ZifyNat.
From Ubx Require Import Fields Base Checksum Frame ParserUbx CfgKeys CfgKeysSpec Request PySem FieldsP CfgKeysP.
From UbxGen Require Import CfgKernels.
Open Scope N_scope.

Definition cv (v : cval) : pyval := match v with CInt z => PInt z | CBool b => PBool b | CNone => PNone end.
(* a CfgKeyData object: the attributes its codec reads and writes *)
Definition obj_of (it : item) : pyval :=
  PObj [("group_id"%string, PInt (it_group it)); ("item_id"%string, PInt (it_item it)); ("bits"%string, PInt (it_bits it));
        ("signed"%string, PBool (it_signed it)); ("value"%string, cv (it_value it))].

(* the same object with arbitrary attribute values (e.g. as the constructor leaves them) *)
Definition obj5 (a b c d e : pyval) : pyval :=
  PObj [("group_id"%string, a); ("item_id"%string, b); ("bits"%string, c); ("signed"%string, d); ("value"%string, e)].

Lemma header_lt g i b h : build_header g i b = Ok h -> (0 <= g <= 255)%Z -> (0 <= i <= 4095)%Z -> h < 4294967296.
Proof.
  intros H Hg Hi. destruct (valid_bits b) eqn:Hv.
  - rewrite (build_header_ok b g i Hv Hg Hi) in H. inversion H; subst h.
    pose proof (key_id_lt b g i Hv Hg Hi). lia.
  - unfold build_header in H. unfold valid_bits in Hv. unfold size_from_bits in H.
    destruct (b =? 1)%Z; [discriminate Hv|]. destruct (b =? 8)%Z; [discriminate Hv|].
    destruct (b =? 16)%Z; [discriminate Hv|]. destruct (b =? 32)%Z; [discriminate Hv|].
    destruct (b =? 64)%Z; [discriminate Hv|]. discriminate H.
Qed.

Lemma pack_header h : h < 4294967296 -> pack_int false 4 (VInt (Z.of_N h)) = Ok (le_enc 4 h).
Proof.
  intros Hh. rewrite pack_int_unsigned by (rewrite pow256_4; lia). rewrite N2Z.id. reflexivity.
Qed.

Ltac py_unfold :=
  cbv beta iota zeta delta [s_seq s_call_assign s_call s_call_assign2 s_call_return s_if s_skip s_try s_return s_assign
    s_assert s_break s_continue s_update s_update_arg s_raise res_call find_handler].

Arguments pack_int : simpl never. Arguments unpack_int : simpl never. Arguments build_header : simpl never.
Arguments le_enc : simpl never. Arguments le_dec : simpl never. Arguments bits_from_key : simpl never.
Arguments group_from_key : simpl never. Arguments item_from_key : simpl never. Arguments sign_of : simpl never.
Arguments Z.ltb : simpl never. Arguments Z.eqb : simpl never. Arguments Z.of_N : simpl never. Arguments Z.to_N : simpl never.
Arguments Z.of_nat : simpl never. Arguments Z.to_nat : simpl never. Arguments firstn : simpl never. Arguments skipn : simpl never.
Arguments Z.add : simpl never.

Section Br.
Context {E : Type} (B : backend E) (sk : list N).
Notation W := (world E).

Definition lift_bytes (self : pyval) (r : res bytes) (w : W) : @fres E :=
  match r with Ok b => FRet (PTuple [PBytes b; self]) w | Raise e => FRaise e w end.

Lemma bridge_pack_keyid fuel it (w : W) :
  (0 <= it_group it <= 255)%Z -> (0 <= it_item it <= 4095)%Z ->
  gc_pack_keyid (E := E) fuel (obj_of it) w
  = lift_bytes (obj_of it) (let* h := build_header (it_group it) (it_item it) (it_bits it) in Ok (le_enc 4 h)) w.
Proof.
  intros Hg Hi. unfold gc_pack_keyid, obj_of. py_unfold. cbn.
  destruct (build_header (it_group it) (it_item it) (it_bits it)) as [h|e] eqn:Hh; cbn; [|reflexivity].
  rewrite (pack_header h (header_lt _ _ _ _ Hh Hg Hi)). reflexivity.
Qed.

(* closed comparisons of integer literals, whatever `simpl never` says *)
Ltac eval_closed_eqb :=
  repeat match goal with
  | |- context [(Zpos ?a =? Zpos ?b)%Z] =>
      let v := eval vm_compute in (Zpos a =? Zpos b)%Z in change ((Zpos a =? Zpos b)%Z) with v
  end.

Lemma bridge_pack_value fuel it (w : W) :
  gc_pack_value (E := E) fuel (obj_of it) w = lift_bytes (obj_of it) (pack_value it) w.
Proof.
  unfold gc_pack_value, obj_of, pack_value, bytes_from_bits. py_unfold. cbn.
  destruct it as [g i b s v]. cbn [it_bits it_signed it_value it_group it_item].
  (* the bit width: one of the five legal ones, or none of them - in whatever order the code tests them *)
  destruct (Z.eq_dec b 1) as [->|N1]; [|destruct (Z.eq_dec b 8) as [->|N8]; [|destruct (Z.eq_dec b 16) as [->|N16];
    [|destruct (Z.eq_dec b 32) as [->|N32]; [|destruct (Z.eq_dec b 64) as [->|N64]]]]].
  1-5: eval_closed_eqb; destruct s; destruct v as [z|bb|]; cbn; try reflexivity;
       try (destruct (z =? 0)%Z; reflexivity); try (destruct bb; reflexivity);
       try (destruct (pack_int _ _ _); reflexivity).
  rewrite (proj2 (Z.eqb_neq b 1) N1), (proj2 (Z.eqb_neq b 8) N8), (proj2 (Z.eqb_neq b 16) N16),
          (proj2 (Z.eqb_neq b 32) N32), (proj2 (Z.eqb_neq b 64) N64).
  destruct s; destruct v as [z|bb|]; reflexivity.
Qed.

Theorem bridge_pack fuel it (w : W) :
  gc_pack (E := E) fuel (obj_of it) w = lift_bytes (obj_of it) (pack_item_cfg it) w.
Proof.
  unfold gc_pack, pack_item_cfg. py_unfold. cbn [cpack__self py_getattr obj_of attr_get String.eqb Ascii.eqb Bool.eqb py_lt].
  change (py_getattr (obj_of it) "group_id") with (PInt (it_group it)).
  change (py_getattr (obj_of it) "item_id") with (PInt (it_item it)).
  cbn [py_lt orb].
  (* the four range tests, however the code groups them *)
  destruct (it_group it <? 0)%Z eqn:Hg1; destruct (255 <? it_group it)%Z eqn:Hg2;
    destruct (it_item it <? 0)%Z eqn:Hi1; destruct (4095 <? it_item it)%Z eqn:Hi2;
    repeat (progress (cbn; rewrite ?Hg1, ?Hg2, ?Hi1, ?Hi2)); try reflexivity.
  repeat match goal with |- context [gc_pack_keyid fuel ?o w] =>
    lazymatch o with obj_of _ => fail | _ => change o with (obj_of it) end end.
  rewrite bridge_pack_keyid by lia.
  destruct (build_header (it_group it) (it_item it) (it_bits it)) as [h|e] eqn:Hh; cbn.
  - repeat match goal with |- context [gc_pack_value fuel ?o w] =>
      lazymatch o with obj_of _ => fail | _ => change o with (obj_of it) end end.
    rewrite bridge_pack_value.
    destruct (pack_value it) as [v|e] eqn:Hv; cbn; [reflexivity|].
    destruct e; reflexivity.
  - rewrite (build_header_raise _ _ _ _ Hh). reflexivity.
Qed.

Definition lift_unpack (r : res (item * nat)) (w : W) : @fres E :=
  match r with Ok (it, n) => FRet (PTuple [PInt (Z.of_nat n); obj_of it]) w | Raise e => FRaise e w end.

Lemma unpack_unsigned_nonneg w bs z : unpack_int false w bs = Ok z -> (0 <= z)%Z.
Proof.
  unfold unpack_int. destruct (Nat.eqb (length bs) w); cbn [negb andb]; [|discriminate]. intros H. inversion H. lia.
Qed.

(* closed comparisons of integer literals, whatever `simpl never` says; comparisons that mention a variable are split, the
   impossible sides closed by arithmetic *)
Ltac is_lit a := lazymatch a with Z0 => idtac | Zpos _ => idtac | Zneg _ => idtac end.
Ltac eval_closed_cmp :=
  repeat match goal with
  | |- context [(?a =? ?b)%Z] => is_lit a; is_lit b; let v := eval vm_compute in (a =? b)%Z in change ((a =? b)%Z) with v
  | |- context [(?a <? ?b)%Z] => is_lit a; is_lit b; let v := eval vm_compute in (a <? b)%Z in change ((a <? b)%Z) with v
  | |- context [(?a <=? ?b)%Z] => is_lit a; is_lit b; let v := eval vm_compute in (a <=? b)%Z in change ((a <=? b)%Z) with v
  end.
Ltac split_cmp :=
  repeat match goal with
  | |- context [(?a =? ?b)%Z] => first [is_var a | is_var b]; let H := fresh "Hc" in destruct (a =? b)%Z eqn:H; try lia
  | |- context [(?a <? ?b)%Z] => first [is_var a | is_var b]; let H := fresh "Hc" in destruct (a <? b)%Z eqn:H; try lia
  | |- context [(?a <=? ?b)%Z] => first [is_var a | is_var b]; let H := fresh "Hc" in destruct (a <=? b)%Z eqn:H; try lia
  end.

Lemma bridge_unpack_value fuel g i b s (v0 : pyval) d (w : W) :
  gc_unpack_value (E := E) fuel (obj5 (PInt g) (PInt i) (PInt b) (PBool s) v0) (PBytes d) w
  = match unpack_value b s d with
    | Ok (v, n) => FRet (PTuple [PInt (Z.of_nat n); obj_of (mkItem g i b s v)]) w
    | Raise e => FRaise e w
    end.
Proof.
  unfold gc_unpack_value, obj_of, obj5, unpack_value. py_unfold.
  Ltac uv_norm := repeat (progress (cbn; unfold bytes_from_bits; eval_closed_cmp; rewrite ?Nat2Z.id)).
  Ltac uv_width s := uv_norm; destruct s; uv_norm;
    match goal with |- context [unpack_int ?sg ?w ?x] => destruct (unpack_int sg w x) as [z|e] end; uv_norm; reflexivity.
  (* the bit width: one of the five legal ones, or none of them - however the code tests them and shares the decoding *)
  destruct (Z.eq_dec b 1) as [->|N1]; [|destruct (Z.eq_dec b 8) as [->|N8]; [|destruct (Z.eq_dec b 16) as [->|N16];
    [|destruct (Z.eq_dec b 32) as [->|N32]; [|destruct (Z.eq_dec b 64) as [->|N64]]]]].
  - uv_norm.
    destruct (unpack_int false 1 (firstn 1 d)) as [z|e] eqn:Hu; uv_norm; [|reflexivity].
    pose proof (unpack_unsigned_nonneg _ _ _ Hu) as Hz.
    destruct (Z.eq_dec z 0) as [->|Z0]; [uv_norm; reflexivity|].
    destruct (Z.eq_dec z 1) as [->|Z1]; [uv_norm; reflexivity|].
    split_cmp; uv_norm; reflexivity.
  - uv_width s.
  - uv_width s.
  - uv_width s.
  - uv_width s.
  - uv_norm. split_cmp; uv_norm; try reflexivity; destruct s; reflexivity.
Qed.

Lemma len_lt4 (d : bytes) : (Z.of_nat (length d) <? 4)%Z = Nat.ltb (length d) 4.
Proof. destruct (Nat.ltb (length d) 4) eqn:H; lia. Qed.

Theorem bridge_unpack_gen fuel a0 b0 c0 d0 e0 data (w : W) :
  gc_unpack (E := E) sk fuel (obj5 a0 b0 c0 d0 e0) (PBytes data) w = lift_unpack (unpack_item_cfg sk data) w.
Proof.
  unfold gc_unpack, unpack_item_cfg. py_unfold. cbn [cunpack__data py_len py_lt].
  rewrite len_lt4.
  destruct (Nat.ltb (length data) 4) eqn:Hlen; [reflexivity|].
  cbn. change (Z.to_nat 4) with 4%nat.
  rewrite (unpack_int_spec false 4 (firstn 4 data)) by (rewrite firstn_length; lia).
  cbn. rewrite !N2Z.id.
  set (k := le_dec (firstn 4 data)).
  change (Z.to_nat 4) with 4%nat.
  match goal with |- context [gc_unpack_value fuel ?o _ w] =>
    change o with (obj5 (PInt (group_from_key k)) (PInt (item_from_key k)) (PInt (bits_from_key k)) (PBool (sign_of sk k)) e0) end.
  rewrite (bridge_unpack_value fuel (group_from_key k) (item_from_key k) (bits_from_key k) (sign_of sk k) e0 (skipn 4 data) w).
  destruct (unpack_value (bits_from_key k) (sign_of sk k) (skipn 4 data)) as [[v n]|e]; cbn.
  - replace (4 + Z.of_nat n)%Z with (Z.of_nat (4 + n)) by lia. reflexivity.
  - destruct e; reflexivity.
Qed.

Theorem bridge_unpack fuel it0 data (w : W) :
  gc_unpack (E := E) sk fuel (obj_of it0) (PBytes data) w = lift_unpack (unpack_item_cfg sk data) w.
Proof. apply bridge_unpack_gen. Qed.
End Br.

Print Assumptions bridge_pack.
Print Assumptions bridge_unpack.
