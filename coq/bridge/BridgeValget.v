(* Bridge lemma (Tie B for the CFG-VALGET response decoder): UbxCfgValGet.unpack of ubxlib/ubx_cfg_valget.py translated from
   the source on this run (ValgetKernels.v; it calls the translated CfgKeyData.unpack of CfgKernels.v) = the hand model
   CfgKeys.valget_decode, for every payload and every signedness table, given fuel for the loop (> payload length). *)
From Coq Require Import String Lia ZifyBool ZifyN ZifyNat.
From Ubx Require Import Fields Base Checksum Frame ParserUbx CfgKeys CfgKeysSpec Request PySem FieldsP CfgKeysP.
From UbxGen Require Import CfgKernels BridgeCfgObj ValgetKernels.
Open Scope N_scope.

Ltac py_unfold :=
  cbv beta iota zeta delta [s_seq s_call_assign s_call s_call_assign2 s_call_return s_if s_skip s_try s_return s_assign
    s_assert s_break s_continue s_update s_update_arg s_raise res_call find_handler].

Arguments Nat.ltb : simpl never. Arguments Nat.leb : simpl never. Arguments unpack_int : simpl never. Arguments unpack_item_cfg : simpl never. Arguments valget_items : simpl never.
Arguments firstn : simpl never. Arguments skipn : simpl never. Arguments gc_unpack : simpl never.
Arguments Z.leb : simpl never. Arguments Z.of_nat : simpl never. Arguments Z.to_nat : simpl never. Arguments Z.add : simpl never.

(* the header items after decoding: version U1, layer U1, position U2 *)
Definition hdr_item (f : string * fty * fval) : pyval :=
  match f with
  | (_, TU 2, VInt z) => PObj [("fmt"%string, PStr "H"); ("value"%string, PInt z)]
  | (_, _, VInt z) => PObj [("fmt"%string, PStr "B"); ("value"%string, PInt z)]
  | (_, _, VStr s) => PObj [("fmt"%string, PStr "B"); ("value"%string, PText s)]
  end.
Definition frame_obj (data : bytes) (f : pyval) : pyval := PObj [("data"%string, PBytes data); ("f"%string, f)].
Definition fields_obj (items : list pyval) : pyval := PObj [("items"%string, PList items)].

Section Br.
Context {E : Type} (sk : list N).
Notation W := (world E).

Lemma le4 (d : bytes) : (4 <=? Z.of_nat (length d))%Z = negb (Nat.ltb (length d) 4).
Proof. destruct (Nat.ltb (length d) 4) eqn:H; cbn [negb]; lia. Qed.

Lemma valget_items_unfold work :
  valget_items sk (length work) work =
  if Nat.ltb (length work) 4 then Ok []
  else match unpack_item_cfg sk work with
       | Ok (it, n) => match valget_items sk (length (skipn n work)) (skipn n work) with
                       | Ok r => Ok (it :: r) | Raise e => Raise e end
       | Raise e => Raise e
       end.
Proof.
  destruct (length work) as [|m] eqn:Hm.
  - reflexivity.
  - change (valget_items sk (S m) work) with
      (if Nat.ltb (length work) 4 then Ok []
       else let* (it, n) := unpack_item_cfg sk work in let* r := valget_items sk m (skipn n work) in Ok (it :: r)).
    rewrite Hm. destruct (Nat.ltb (S m) 4); [reflexivity|].
    destruct (unpack_item_cfg sk work) as [[it n]|e] eqn:Eu; cbn [bind]; [|reflexivity].
    pose proof (unpack_ok_consumes sk work it n Eu) as Hn.
    rewrite (valget_fuel sk (skipn n work) m) by (rewrite skipn_length; lia).
    destruct (valget_items _ _ _); reflexivity.
Qed.

Theorem bridge_valget_unpack : forall fuel data f0 (w : W), (length data < fuel)%nat ->
  gv_unpack (E := E) sk fuel (frame_obj data f0) w
  = match valget_decode sk data with
    | Ok (h, its) => FRet (PTuple [PNone; frame_obj data (fields_obj (map hdr_item h ++ map obj_of its))]) w
    | Raise e => FRaise e w
    end.
Proof.
  intros fuel data f0 w Hfuel. unfold gv_unpack, valget_decode, frame_obj. py_unfold. cbn.
  destruct (unpack_int false 1 (firstn 1 data)) as [z0|e0]; cbn; [|reflexivity].
  destruct (unpack_int false 1 (firstn 1 (skipn 1 data))) as [z1|e1]; cbn; [|reflexivity].
  destruct (unpack_int false 2 (firstn 2 (skipn 1 (skipn 1 data)))) as [z2|e2]; cbn; [|reflexivity].
  set (work0 := skipn 2 (skipn 1 (skipn 1 data))).
  assert (Hw0 : (length work0 <= length data)%nat) by (unfold work0; rewrite !skipn_length; lia).
  match goal with |- context [s_while fuel ?c ?b] =>
    assert (Hloop : forall body, (forall l w, body l w = b l w) -> forall j l wk pre,
              vunpack__ROLE_work l = PBytes wk -> vunpack__self l = frame_obj data (fields_obj pre) ->
              (length wk < j)%nat -> (j <= fuel)%nat ->
              match valget_items sk (length wk) wk with
              | Ok its => exists l', s_while j c body l w = CNormal l' w
                                     /\ vunpack__self l' = frame_obj data (fields_obj (pre ++ map obj_of its))
              | Raise e => exists l', s_while j c body l w = CRaise e l' w
              end) end.
  { intros body Hb. induction j as [|j IH]; intros l wk pre Hwk Hself Hj Hjf; [lia|].
    rewrite valget_items_unfold. cbn [s_while].
    (* whatever decides to stop - the loop condition or a test with `break` at the top of the body *)
    Ltac vg_norm Hb Hwk := repeat (progress (rewrite ?Hb; py_unfold; cbn; rewrite ?Hwk, ?le4, ?len_lt4)).
    vg_norm Hb Hwk.
    destruct (Nat.ltb (length wk) 4) eqn:Hlt; vg_norm Hb Hwk.
    - exists l. rewrite app_nil_r. split; [reflexivity | exact Hself].
    - change py_new_cfgkey with (obj5 PNone PNone (PInt 0) (PBool false) PNone).
      rewrite (bridge_unpack_gen sk fuel). unfold lift_unpack.
      destruct (unpack_item_cfg sk wk) as [[it n]|e] eqn:Eu; cbn.
      + pose proof (unpack_ok_consumes sk wk it n Eu) as Hn.
        rewrite Hself, ?Hwk. cbn. rewrite ?Hwk. cbn. rewrite Nat2Z.id.
        match goal with |- context [s_while j _ body ?l1 w] =>
          specialize (IH l1 (skipn n wk) (pre ++ [obj_of it]) eq_refl eq_refl) end.
        assert (Hlen : (length (skipn n wk) < j)%nat) by (rewrite skipn_length; apply Nat.ltb_ge in Hlt; lia).
        specialize (IH Hlen ltac:(lia)).
        destruct (valget_items sk (length (skipn n wk)) (skipn n wk)) as [r|e].
        * destruct IH as (l' & Hl' & Hs'). exists l'. split; [exact Hl'|].
          rewrite Hs'. rewrite <- app_assoc. reflexivity.
        * destruct IH as (l' & Hl'). exists l'. exact Hl'.
      + eexists. reflexivity. }
  set (h := [("version"%string, TU 1, VInt z0); ("layer"%string, TU 1, VInt z1); ("position"%string, TU 2, VInt z2)]).
  match goal with |- context [s_while fuel _ _ ?l0 w] =>
    pose proof (Hloop _ (fun _ _ => eq_refl) fuel l0 work0 (map hdr_item h) eq_refl eq_refl ltac:(lia) ltac:(lia)) as HL end.
  destruct (valget_items sk (length work0) work0) as [its|e]; cbn.
  - destruct HL as (l' & -> & Hs). cbn. rewrite Hs. reflexivity.
  - destruct HL as (l' & ->). reflexivity.
Qed.
End Br.

Print Assumptions bridge_valget_unpack.
