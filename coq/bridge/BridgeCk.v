(* Bridge lemmas (Tie B for kernels): the definitions regenerated from the Python source on every run
   (UbxGen.Kernels) are extensionally equal to the hand models the theorems are about.
   Compiled on every run; a failure is a broken proof obligation. *)
From Coq Require Import Lia ZifyBool ZifyN ZifyNat.
From Ubx Require Import Fields Base Checksum ParserUbx ParserNmea ChecksumP.
From UbxGen Require Import Kernels.
#[local] Ltac Zify.zify_post_hook ::= Z.to_euclidean_division_equations.

(* ---- Checksum ---------------------------------------------------------------------- *)
Definition ck_of (g : gck) : ck := (g_cka g, g_ckb g).

Ltac norm_mask := repeat rewrite land255 in *.
Ltac arith_eq := first [reflexivity | norm_mask; first [reflexivity | f_equal; lia | lia]].

Theorem bridge_ck_add : forall g x, ck_of (g_ck_add g x) = ck_add (ck_of g) x.
Proof.
  intros [a b] x. unfold ck_of, g_ck_add, ck_add, set_g_cka, set_g_ckb; cbn [g_cka g_ckb fst snd].
  arith_eq.
Qed.

Theorem bridge_ck_reset : forall g, ck_of (g_ck_reset g) = ck_reset.
Proof. intros [a b]. reflexivity. Qed.

Theorem bridge_ck_matches : forall g a b, g_ck_matches g a b = ck_matches (ck_of g) a b.
Proof. intros [x y] a b. reflexivity. Qed.

Theorem bridge_ck_value : forall g, g_ck_value g = ck_value (ck_of g).
Proof. intros [x y]. reflexivity. Qed.

Print Assumptions bridge_ck_add.
Print Assumptions bridge_ck_matches.
